#!/bin/bash
# setup_cmd: offline; probes the toolchain and warms the Go build cache for every harness package.
set -e
cd "$(dirname "$0")/harness"
export GOFLAGS=-mod=mod GOPROXY=off GOSUMDB=off GOTOOLCHAIN=local
go1.26.8 version
mkdir -p ../.work
go1.26.8 build -o ../.work/evmerge ./cmd/evmerge
go1.26.8 test -tags verif -vet=off -count=1 -run '^$' ./... >/dev/null
echo setup ok
