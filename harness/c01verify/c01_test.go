// C01 — verified layers never return bytes that do not match the TOC-pinned digests.
package c01verify

import (
	"bytes"
	"encoding/json"
	"os"
	"path/filepath"
	"sort"
	"sync"
	"syscall"
	"testing"
	"time"

	"github.com/containerd/stargz-snapshotter/fs/layer"
	digest "github.com/opencontainers/go-digest"
	ocispec "github.com/opencontainers/image-spec/specs-go/v1"
	"pgregory.net/rapid"
	"verifharness/lib/esgzbuild"
	"verifharness/lib/esgzref"
	"verifharness/lib/fullstack"
	"verifharness/lib/fusedrive"
	"verifharness/lib/pbt"
	"verifharness/lib/tarmodel"
)

type Fault struct {
	Kind string `json:"kind"`           // none bitflip zero member-replace truncate toc-chunkdigest toc-size toc-offset toc-name toc-drop toc-add toc-reorder toc-reserialize
	A    int    `json:"a,omitempty"`    // selects the target chunk / entry
	B    int    `json:"b,omitempty"`    // selects position / second entry
	Via  string `json:"via"`            // registry | registry-late | httpcache-file | fscache-file
	File string `json:"file,omitempty"` // payload faults: restrict the target chunk to this file
}

type Step struct {
	Op   string `json:"op"` // prefetch bgfetch verify-good verify-bad verify-alt skip read readall reresolve inject prefetch-async
	File int    `json:"file,omitempty"`
	Off  int    `json:"off,omitempty"`
	Len  int    `json:"len,omitempty"`
}

type Case struct {
	Archive tarmodel.Archive `json:"archive"`
	Opts    esgzbuild.Opts   `json:"opts"`
	Cfg     fullstack.Config `json:"config"`
	Fault   Fault            `json:"fault"`
	Steps   []Step           `json:"steps"`
}

func gen(t *rapid.T) Case {
	var c Case
	c.Opts = esgzbuild.GenOpts(t, []string{"gzip", "gzip", "zstd", "external"})
	cs := c.Opts.ChunkSize
	if cs == 0 {
		cs = 64
	}
	c.Archive = tarmodel.Gen(t, tarmodel.GenOpts{MaxEntries: 10, ChunkSize: cs, Hardlinks: true, Spellings: true})
	// make sure there is file data to corrupt
	c.Archive.Entries = append(c.Archive.Entries, tarmodel.Entry{Name: "zz-data", Type: "reg", Mode: 0o644, MTime: 1600000000, Size: rapid.SampledFrom([]int{1, cs, cs + 1, 2*cs + 1, 3 * cs}).Draw(t, "zzsize"), Seed: 99})
	if rapid.Bool().Draw(t, "prioritized") {
		// with a prefetch landmark Prefetch itself fills the chunk cache (verifying as it goes)
		c.Opts.Prioritized = []string{"zz-data"}
	}
	c.Cfg = fullstack.GenConfig(t)
	if rapid.IntRange(0, 3).Draw(t, "pt") == 0 {
		c.Cfg.PassThrough = true
		c.Cfg.MergeBuf = rapid.SampledFrom([]int64{int64(cs), int64(2 * cs), 1 << 20}).Draw(t, "mergebuf")
		c.Cfg.MergeWorkers = rapid.IntRange(1, 3).Draw(t, "mergeworkers")
		c.Cfg.FSCache = "directory"
	}
	kinds := []string{"none", "bitflip", "bitflip", "zero", "member-replace", "member-replace", "truncate",
		"toc-chunkdigest", "toc-size", "toc-offset", "toc-name", "toc-drop", "toc-add", "toc-reorder", "toc-reserialize"}
	c.Fault = Fault{Kind: rapid.SampledFrom(kinds).Draw(t, "fault"), A: rapid.IntRange(0, 30).Draw(t, "fa"), B: rapid.IntRange(0, 200).Draw(t, "fb")}
	if c.Fault.Kind != "none" {
		vias := []string{"registry", "registry", "registry-late"}
		if len(c.Fault.Kind) < 4 || c.Fault.Kind[:4] != "toc-" {
			vias = append(vias, "httpcache-file", "fscache-file")
		}
		c.Fault.Via = rapid.SampledFrom(vias).Draw(t, "via")
		if c.Fault.Via == "httpcache-file" {
			c.Cfg.HTTPCache = "directory"
		}
		if c.Fault.Via == "fscache-file" {
			c.Cfg.FSCache = "directory"
		}
	}
	c.Steps = rapid.SliceOfN(rapid.Custom(func(t *rapid.T) Step {
		s := Step{Op: rapid.SampledFrom([]string{"prefetch", "prefetch-async", "bgfetch", "verify-good", "verify-good", "verify-racing", "verify-racing", "verify-bad", "verify-alt", "skip", "read", "read", "read", "readall", "readall", "reresolve", "inject"}).Draw(t, "op")}
		s.File = rapid.IntRange(0, 20).Draw(t, "file")
		s.Off = rapid.SampledFrom([]int{0, 0, 1, cs - 1, cs, cs + 1, 2 * cs}).Draw(t, "off")
		if s.Off < 0 {
			s.Off = 0
		}
		s.Len = rapid.SampledFrom([]int{1, 2, cs, cs + 1, 3*cs + 2, 500}).Draw(t, "len")
		return s
	}), 2, 14).Draw(t, "steps")
	if rapid.IntRange(0, 5).Draw(t, "racescenario") == 0 {
		// the interleaving the property names explicitly: an altered chunk of a prioritized file is cached by
		// prefetch while the verification call is taking its decision, then read
		c.Opts.Prioritized = []string{"zz-data"}
		c.Fault = Fault{Kind: rapid.SampledFrom([]string{"member-replace", "member-replace", "bitflip", "zero"}).Draw(t, "rfault"), A: c.Fault.A, B: c.Fault.B, Via: "registry", File: "zz-data"}
		pre := []Step{{Op: "verify-racing"}}
		if rapid.Bool().Draw(t, "skipfirst") {
			pre = []Step{{Op: "skip"}, {Op: "verify-racing"}}
		}
		c.Steps = append(pre, c.Steps...)
		c.Steps = append(c.Steps, Step{Op: "readall", File: -1}, Step{Op: "readall", File: rapid.IntRange(0, 20).Draw(t, "rfile")})
	}
	return c
}

type chunkRef struct {
	file  string
	entry *esgzref.Entry
	idx   int   // index into TOC entries
	next  int64 // offset where the next member starts (end of this member)
}

// alter returns the faulty blob / external TOC and the digest of the TOC they carry.
func alter(c Case, good *esgzbuild.Built, p *esgzref.Parsed) (blob, ext []byte, tocDigest string, applied bool) {
	blob, ext, tocDigest = good.Blob, good.ExternalTOC, good.TOCDigest
	f := c.Fault
	var payloadEnd int64
	switch p.Kind {
	case "gzip":
		payloadEnd = p.TOCOffset
	case "zstd":
		payloadEnd = p.TOCOffset - 8
	case "external":
		payloadEnd = int64(len(good.Blob)) - esgzref.ExternalFooterSize
	}
	// data chunks with their member extent
	var chunks []chunkRef
	var offs []int64
	for _, e := range p.TOC.Entries {
		if (e.Type == "reg" && e.Size > 0) || e.Type == "chunk" {
			offs = append(offs, e.Offset)
		}
	}
	offs = append(offs, payloadEnd)
	sort.Slice(offs, func(i, j int) bool { return offs[i] < offs[j] })
	cur := ""
	for i, e := range p.TOC.Entries {
		if e.Type == "reg" {
			cur = e.Name
		}
		if (e.Type == "reg" && e.Size > 0) || e.Type == "chunk" {
			next := payloadEnd
			for _, o := range offs {
				if o > e.Offset {
					next = o
					break
				}
			}
			chunks = append(chunks, chunkRef{file: cur, entry: e, idx: i, next: next})
		}
	}
	if f.File != "" {
		var only []chunkRef
		for _, c := range chunks {
			if c.file == f.File {
				only = append(only, c)
			}
		}
		chunks = only
	}
	if len(chunks) == 0 {
		return blob, ext, tocDigest, false
	}
	ch := chunks[f.A%len(chunks)]
	mlen := ch.next - ch.entry.Offset
	switch f.Kind {
	case "bitflip":
		if mlen <= 0 {
			return blob, ext, tocDigest, false
		}
		b := append([]byte(nil), good.Blob...)
		pos := ch.entry.Offset + int64(f.B)%mlen
		b[pos] ^= 1 << (uint(f.B) % 8)
		return b, ext, tocDigest, true
	case "zero":
		if mlen <= 0 {
			return blob, ext, tocDigest, false
		}
		b := append([]byte(nil), good.Blob...)
		pos := ch.entry.Offset + int64(f.B)%mlen
		changed := false
		for i := pos; i < pos+4 && i < ch.next; i++ {
			if b[i] != 0 {
				changed = true
			}
			b[i] = 0
		}
		return b, ext, tocDigest, changed
	case "truncate":
		cut := ch.entry.Offset + int64(f.B)%(mlen+1)
		return append([]byte(nil), good.Blob[:cut]...), ext, tocDigest, true
	case "member-replace":
		// decompress the member, rewrite the chunk's data bytes, recompress validly
		var raw []byte
		var err error
		member := good.Blob[ch.entry.Offset:ch.next]
		if p.Kind == "zstd" {
			raw, err = esgzref.DecompressAll(member, "zstd")
		} else {
			raw, err = esgzref.DecompressAll(member, "gzip")
		}
		size := ch.entry.ChunkSize
		if size == 0 {
			for _, e := range p.TOC.Entries {
				if e.Type == "reg" && e.Name == ch.file {
					size = e.Size - ch.entry.ChunkOffset
				}
			}
		}
		if err != nil || int64(len(raw)) < ch.entry.InnerOffset+size || size <= 0 {
			return blob, ext, tocDigest, false
		}
		raw = append([]byte(nil), raw...)
		at := ch.entry.InnerOffset + int64(f.B)%size
		raw[at] ^= 0x20
		// same length as the original member, so that the footer, the TOC and every other offset stay valid:
		// a validly compressed different payload in the very place the TOC points at
		var nm []byte
		var ok bool
		if p.Kind == "zstd" {
			nm, ok = esgzref.ZstdFrameSized(raw, len(member))
		} else {
			nm, ok = esgzref.GzipMemberSized(raw, len(member))
		}
		if !ok {
			return blob, ext, tocDigest, false
		}
		b := append([]byte(nil), good.Blob[:ch.entry.Offset]...)
		b = append(b, nm...)
		b = append(b, good.Blob[ch.next:]...)
		return b, ext, tocDigest, true
	}
	// TOC faults: alter the TOC JSON and wrap it again around the unchanged payload
	var toc esgzref.TOC
	if err := json.Unmarshal(p.TOCJSON, &toc); err != nil {
		return blob, ext, tocDigest, false
	}
	e := toc.Entries[ch.idx]
	other := toc.Entries[chunks[f.B%len(chunks)].idx]
	switch f.Kind {
	case "toc-chunkdigest":
		if e.ChunkDigest == other.ChunkDigest {
			e.ChunkDigest = esgzref.Sha256([]byte("other"))
		} else {
			e.ChunkDigest = other.ChunkDigest
		}
	case "toc-size":
		toc.Entries[ch.idx].Size++
		if toc.Entries[ch.idx].Type == "chunk" {
			toc.Entries[ch.idx].ChunkSize++
		}
	case "toc-offset":
		e.Offset = other.Offset + int64(f.B%3)
	case "toc-name":
		toc.Entries[f.A%len(toc.Entries)].Name += "x"
	case "toc-drop":
		i := f.A % len(toc.Entries)
		toc.Entries = append(toc.Entries[:i], toc.Entries[i+1:]...)
	case "toc-add":
		toc.Entries = append(toc.Entries, &esgzref.Entry{Name: "injected", Type: "reg", Size: 1, Offset: ch.entry.Offset, ChunkDigest: ch.entry.ChunkDigest, Digest: ch.entry.ChunkDigest})
	case "toc-reorder":
		i, j := f.A%len(toc.Entries), f.B%len(toc.Entries)
		toc.Entries[i], toc.Entries[j] = toc.Entries[j], toc.Entries[i]
	case "toc-reserialize":
		// same content, other bytes
	default:
		return blob, ext, tocDigest, false
	}
	js, _ := json.Marshal(toc) // compact: differs from the builder's indented form even when nothing changed
	if bytes.Equal(js, p.TOCJSON) {
		return blob, ext, tocDigest, false
	}
	nb, next := esgzref.Wrap(p.Kind, good.Blob[:payloadEnd], js, nil)
	return nb, next, esgzref.Sha256(js), true
}

type mount struct {
	fs       *fusedrive.FS
	verified string // TOC digest the mount was verified with ("" = skip-verified)
}

func corruptDir(dir string, pos int) int {
	n := 0
	filepath.Walk(dir, func(p string, info os.FileInfo, err error) error {
		if err != nil || !info.Mode().IsRegular() || info.Size() == 0 {
			return nil
		}
		b, err := os.ReadFile(p)
		if err != nil {
			return nil
		}
		b[pos%len(b)] ^= 0x20
		if os.WriteFile(p, b, 0o600) == nil {
			n++
		}
		return nil
	})
	return n
}

func run(c Case, ev *pbt.Ev) error {
	tarBytes, err := c.Archive.Tar()
	if err != nil {
		return pbt.Inconclusive("generator produced an archive the standard library refuses: %v", err)
	}
	good, err := esgzbuild.Build(tarBytes, c.Opts)
	if err != nil {
		return pbt.Inconclusive("builder refused a valid archive (C03's business): %v", err)
	}
	p, err := esgzref.Parse(good.Blob, good.ExternalTOC)
	if err != nil {
		return pbt.Inconclusive("reference parser: %v", err)
	}
	files, err := p.Files()
	if err != nil {
		return pbt.Inconclusive("reference parser: %v", err)
	}
	var fnames []string
	for n, f := range files {
		if len(f.Content) > 0 && n != ".prefetch.landmark" && n != ".no.prefetch.landmark" {
			fnames = append(fnames, n)
		}
	}
	sort.Strings(fnames)
	badBlob, badExt, badTOCDigest, applied := alter(c, good, p)
	if c.Fault.Kind == "none" {
		applied = false
	}
	tocFault := applied && badTOCDigest != good.TOCDigest
	var altFiles map[string]*esgzref.File
	var altParsed *esgzref.Parsed
	if tocFault {
		if ap, err := esgzref.Parse(badBlob, badExt); err == nil {
			altParsed = ap
			altFiles, _ = ap.Files() // may fail: then no content claims are checked for an alt mount
		}
	}
	st, err := fullstack.New(c.Cfg)
	if err != nil {
		return pbt.Inconclusive("stack: %v", err)
	}
	defer st.Close()
	// the layer is always addressed by the digest of the good blob (what the trusted manifest says)
	desc := st.AddBlob(good.Blob, good.ExternalTOC)
	injected := false
	inject := func() {
		if !applied || injected {
			return
		}
		injected = true
		switch c.Fault.Via {
		case "registry", "registry-late":
			st.Reg.AddBlob(desc.Digest.String(), badBlob)
			st.SetExternalTOC(desc.Digest, badExt)
		case "httpcache-file":
			if corruptDir(filepath.Join(st.Root, "stargz", "httpcache"), c.Fault.B) == 0 {
				injected = false
			}
		case "fscache-file":
			if corruptDir(filepath.Join(st.Root, "stargz", "fscache"), c.Fault.B) == 0 {
				injected = false
			}
		}
	}
	if c.Fault.Via == "registry" {
		inject()
	}
	// which TOC does the registry hand out at resolve time?
	servedTOCDigest := func() string {
		if injected && tocFault && (c.Fault.Via == "registry" || c.Fault.Via == "registry-late") {
			return badTOCDigest
		}
		return good.TOCDigest
	}
	var (
		l           layer.Layer
		resolvedTOC string // digest of the TOC the current layer object was resolved with
		mnt         *mount
		decided     string // "" | "skip" | digest
		prefetchWG  sync.WaitGroup
	)
	resolve := func() error {
		nl, err := st.Resolve(desc)
		if err != nil {
			return err
		}
		if l == nil {
			resolvedTOC = servedTOCDigest()
		}
		if l != nil {
			l.Done()
		}
		l = nl
		return nil
	}
	defer func() {
		prefetchWG.Wait()
		if l != nil {
			l.Close()
		}
	}()
	if err := resolve(); err != nil {
		if applied && injected {
			ev.Class("resolve-refused-faulty-layer")
			ev.NT()
			return nil // "the mount fails with an error"
		}
		return pbt.Violf("resolve-failed", "resolving an intact layer failed: %v", err)
	}
	establish := func(verifiedWith string) error {
		root, err := l.RootNode(0)
		if err != nil {
			return pbt.Violf("rootnode-failed", "RootNode after a successful decision failed: %v", err)
		}
		mnt = &mount{fs: fusedrive.New(root, false), verified: verifiedWith}
		return nil
	}
	readFile := func(name string, off, ln int) ([]byte, syscall.Errno) {
		node, _, errno := mnt.fs.Walk(tarmodel.Clean(name))
		if errno != 0 {
			return nil, errno
		}
		h, errno := mnt.fs.Open(node)
		if errno != 0 {
			return nil, errno
		}
		defer h.Release()
		buf := make([]byte, ln)
		if fd, ok := h.PassthroughFd(); ok {
			ev.Class("passthrough-read")
			n, err := syscall.Pread(fd, buf, int64(off))
			if err != nil {
				return nil, syscall.EIO
			}
			return buf[:n], 0
		}
		n, errno := h.Read(buf, int64(off))
		return buf[:n], errno
	}
	const cachedUnverified = "C01-chunk-cached-while-unverified"
	readUnverified := map[string]bool{} // files read while this cache served a skip-verified mount
	checkRead := func(i int, name string, off int, got []byte) (rerr error) {
		if mnt.verified == "" {
			readUnverified[name] = true
			return nil // skip-verified mount: no guarantee
		}
		defer func() {
			// recorded finding: chunks that entered the chunk cache while the mount was used without verification
			// are served from the cache, unverified, after a later Verify succeeded
			if rerr != nil && readUnverified[name] && pbt.Known(cachedUnverified) {
				ev.Exclude(cachedUnverified)
				rerr = nil
			}
		}()
		var want []byte
		switch mnt.verified {
		case good.TOCDigest:
			want = files[name].Content
		case badTOCDigest:
			if altFiles == nil || altFiles[name] == nil {
				// the altered TOC is not self-consistent for this file: any successful read is suspicious only if
				// it can be checked chunk by chunk
				return checkChunks(i, name, off, got, altParsed)
			}
			want = altFiles[name].Content
		}
		end := off + len(got)
		if off > len(want) {
			off = len(want)
		}
		if end > len(want) {
			if len(got) > 0 && off+len(got) > len(want) {
				return pbt.Violf("read-too-long", "step %d: read of %q returned %d bytes at %d, file has %d", i, name, len(got), off, len(want))
			}
			end = len(want)
		}
		if !bytes.Equal(got, want[off:end]) {
			kind := "altered-bytes-returned"
			if c.Fault.Via == "fscache-file" && injected && pbt.Known("C01-fscache-hit-unverified") {
				ev.Exclude("C01-fscache-hit-unverified")
				return nil
			}
			return pbt.Violf(kind, "step %d: verified mount (TOC %s) returned bytes for %q [%d,%d) that differ from the content pinned by that TOC (fault %+v applied=%v injected=%v)", i, mnt.verified[:19], name, off, end, c.Fault, applied, injected)
		}
		return nil
	}
	for i, s := range c.Steps {
		switch s.Op {
		case "inject":
			inject()
		case "prefetch":
			l.Prefetch(int64(1 << 20))
		case "prefetch-async":
			// as fs.Mount does: prefetch runs while the verification decision is taken
			ll := l
			prefetchWG.Add(1)
			go func() { defer prefetchWG.Done(); ll.Prefetch(int64(1 << 20)) }()
			ev.Class("prefetch-concurrent-with-verify")
		case "bgfetch":
			l.BackgroundFetch()
		case "reresolve":
			if err := resolve(); err != nil {
				if applied && injected {
					continue
				}
				return pbt.Violf("resolve-failed", "step %d: re-resolving failed: %v", i, err)
			}
			ev.Class("second-resolve")
		case "verify-good", "verify-bad", "verify-alt", "verify-racing":
			d := good.TOCDigest
			if s.Op == "verify-racing" {
				// harness-owned schedule: prefetch and background caching run to completion at the moment the
				// verification call reads the TOC digest, i.e. in the middle of its decision
				ll := l
				st.ArmTOCDigestGate(func() {
					done := make(chan struct{})
					prefetchWG.Add(1)
					go func() {
						defer prefetchWG.Done()
						ll.Prefetch(int64(1 << 20))
						close(done) // (background fetch waits for the verification call by itself: it asks for Info())
						ll.BackgroundFetch()
					}()
					select {
					case <-done:
					case <-time.After(3 * time.Second):
					}
				})
			}
			if s.Op == "verify-bad" {
				d = esgzref.Sha256([]byte("not the toc"))
			}
			if s.Op == "verify-alt" {
				d = badTOCDigest
			}
			err := l.Verify(digest.Digest(d))
			if s.Op == "verify-racing" && st.DisarmTOCDigestGate() {
				ev.Class("caching-inside-verify")
			}
			if err == nil {
				if d != resolvedTOC {
					if decided != "" && pbt.Known("C01-verify-noop-after-decision") {
						ev.Exclude("C01-verify-noop-after-decision")
						continue
					}
					return pbt.Violf("verify-accepted-wrong-digest", "step %d: Verify(%s) succeeded but the TOC this layer was resolved with hashes to %s (earlier decision on this layer object: %q)", i, d[:19], resolvedTOC[:19], decided)
				}
				if decided == "skip" && mnt != nil {
					// the layer was used unverified before; a successful Verify means that from now on the very same
					// nodes serve verified content (checked by the read oracle below)
					mnt.verified = d
					decided = d
					ev.Class("verify-after-skip")
					ev.Class("multi-decision")
					continue
				}
				if decided != "" && decided != d {
					return pbt.Violf("verify-accepted-wrong-digest", "step %d: Verify(%s) succeeded on a layer verified with %s", i, d[:19], decided[:19])
				}
				decided = d
				if err := establish(d); err != nil {
					return err
				}
				ev.Class("mounted-verified")
				if d == badTOCDigest && tocFault {
					ev.Class("mounted-with-altered-toc-digest")
				}
			} else {
				ev.Class("verify-refused")
				ev.ClassIf(decided != "", "multi-decision")
			}
			ev.ClassIf(decided != "" && err == nil, "multi-decision")
		case "skip":
			l.SkipVerify()
			if decided == "" {
				decided = "skip"
				if err := establish(""); err != nil {
					return err
				}
			}
		case "read", "readall":
			if mnt == nil || len(fnames) == 0 {
				ev.Skipped++
				continue
			}
			name := fnames[((s.File%len(fnames))+len(fnames))%len(fnames)]
			if s.File < 0 {
				if _, ok := files["zz-data"]; ok {
					name = "zz-data"
				}
			}
			off, ln := s.Off, s.Len
			if s.Op == "readall" {
				off, ln = 0, len(files[name].Content)+3
			}
			got, errno := readFile(name, off, ln)
			if errno != 0 {
				if !applied || !injected {
					if mnt.verified != "" {
						return pbt.Violf("read-failed-without-fault", "step %d: read of %q on a verified mount failed (errno %d) although nothing was altered", i, name, errno)
					}
				}
				ev.Class("read-refused")
				continue
			}
			if err := checkRead(i, name, off, got); err != nil {
				return err
			}
			ev.ClassIf(applied && injected && mnt.verified != "", "read-after-fault-on-verified-mount")
		}
		ev.Steps++
	}
	ev.Class("fault-" + c.Fault.Kind)
	ev.ClassIf(applied && injected, "faulted")
	ev.ClassIf(c.Fault.Kind != "none" && !(applied && injected), "fault-not-applied")
	ev.Class("store-" + c.Cfg.Store)
	ev.Class("compression-" + c.Opts.Compression)
	ev.ClassIf(c.Cfg.PassThrough, "passthrough")
	ev.ClassIf(c.Fault.Via != "", "via-"+c.Fault.Via)
	ev.NTIf((applied && injected && (ev.Has("read-after-fault-on-verified-mount") || ev.Has("read-refused") || ev.Has("verify-refused"))) || ev.Has("multi-decision") || ev.Has("prefetch-concurrent-with-verify"))
	return nil
}

// checkChunks verifies a full-file read against the chunk digests of an (altered) TOC.
func checkChunks(i int, name string, off int, got []byte, ap *esgzref.Parsed) error {
	if ap == nil || off != 0 {
		return nil
	}
	var reg *esgzref.Entry
	var chs []*esgzref.Entry
	for _, e := range ap.TOC.Entries {
		if e.Type == "reg" {
			reg = nil
			if tarmodel.Clean(e.Name) == name {
				reg = e
				chs = append(chs, e)
			}
		} else if e.Type == "chunk" && reg != nil {
			chs = append(chs, e)
		}
	}
	for _, ch := range chs {
		size := ch.ChunkSize
		if size == 0 && len(chs) > 0 {
			size = chs[0].Size - ch.ChunkOffset
		}
		if ch.ChunkOffset < 0 || size <= 0 || ch.ChunkOffset+size > int64(len(got)) {
			continue
		}
		if d := esgzref.Sha256(got[ch.ChunkOffset : ch.ChunkOffset+size]); d != ch.ChunkDigest {
			return pbt.Violf("chunk-digest-mismatch", "step %d: bytes [%d,%d) returned for %q hash to %s, the TOC the mount was verified with records %s", i, ch.ChunkOffset, ch.ChunkOffset+size, name, d[:19], ch.ChunkDigest)
		}
	}
	return nil
}

func TestProp_Verify(t *testing.T) {
	pbt.Run(t, pbt.Options{Prop: "C01", Name: "Verify", Quick: 3000, Thorough: 12000, Current: true, Timeout: 120 * time.Second,
		Floors: map[string]float64{"faulted": 0.35},
		Rule: "rapid: layer built by the repository's builder (gzip / zstd:chunked / external TOC, chunk 1-64, min-chunk, 1-11 entries) x stack config (memory/db store, memory/directory caches with tiny LRUs, registry chunk size, passthrough with merge buffer/worker settings) x one fault {bit flip, zeroed range, a member replaced by a validly compressed different payload, truncation; " +
			"TOC: chunk digest swapped, size/offset/name changed, entry dropped/added/reordered, re-serialised} delivered by {registry from the start, registry only after an 'inject' step, rewritten compressed-chunk cache files, rewritten uncompressed-chunk cache files} x 2-14 steps of Prefetch (also concurrently with the decision), BackgroundFetch, Verify(good|wrong|altered-TOC digest), SkipVerify, second Resolve, read(file,off,len), read whole file (pread on the passthrough fd when offered); " +
			"oracle from an independent parse of the fault-free blob: Verify(D) succeeds only if the TOC the layer was resolved with hashes to D (also on an already decided layer); every successful read on a verified mount returns the bytes pinned by that TOC (chunk digests re-checked for an altered-TOC mount); errors are always acceptable once a fault was delivered, never before. " +
			"non-trivial = a delivered fault followed by a read/verify on the affected layer, or >= 2 verification decisions, or prefetch racing the decision",
	}, gen, run)
}

var _ = ocispec.Descriptor{}
var _ = time.Second
