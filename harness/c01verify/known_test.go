package c01verify

import (
	"testing"

	"verifharness/lib/esgzbuild"
	"verifharness/lib/fullstack"
	"verifharness/lib/pbt"
	"verifharness/lib/tarmodel"
)

// TestKnown_FSCacheHitUnverified re-establishes the recorded finding with a fixed history: read a file on a
// verified mount, rewrite the uncompressed-chunk cache files, read again.
func TestKnown_FSCacheHitUnverified(t *testing.T) {
	const id = "C01-fscache-hit-unverified"
	c := Case{
		Archive: tarmodel.Archive{Entries: []tarmodel.Entry{
			{Name: "a", Type: "reg", Mode: 0o644, MTime: 1600000000, Size: 40, Seed: 3},
			{Name: "zz-data", Type: "reg", Mode: 0o644, MTime: 1600000000, Size: 48, Seed: 99},
		}},
		Opts:  esgzbuild.Opts{Compression: "gzip", Level: 1, ChunkSize: 16, Workers: 1},
		Cfg:   fullstack.Config{Store: "memory", FSCache: "directory", HTTPCache: "memory", LRUEntries: 1, MaxFds: 1, SyncAdd: true, Direct: true},
		Fault: Fault{Kind: "bitflip", A: 0, B: 0, Via: "fscache-file"},
		Steps: []Step{{Op: "verify-good"}, {Op: "readall", File: 0}, {Op: "readall", File: 1}, {Op: "inject"}, {Op: "readall", File: 0}, {Op: "readall", File: 1}},
	}
	ev := &pbt.Ev{}
	err := run(c, ev)
	// with the finding listed the violation is routed to the exclusion counter; without, it is returned
	reproduced := err != nil || ev.Excluded(id) > 0
	detail := "altered cache file content was not returned"
	if err != nil {
		detail = err.Error()
	} else if reproduced {
		detail = "verified mount returned the altered cache file content"
	}
	pbt.Reproduced(id, reproduced, detail)
	if err != nil && !pbt.Known(id) {
		t.Errorf("finding %s reproduces but is not listed as known: %v", id, err)
	}
}

// TestKnown_ChunkCachedWhileUnverified re-establishes the recorded finding with a fixed history: the TOC served
// (and pinned by the digest used for Verify) records a wrong digest for one chunk; the layer is first used with
// SkipVerify and the file is read, then Verify succeeds and the file is read again.
func TestKnown_ChunkCachedWhileUnverified(t *testing.T) {
	const id = "C01-chunk-cached-while-unverified"
	c := Case{
		Archive: tarmodel.Archive{Entries: []tarmodel.Entry{
			{Name: "a", Type: "reg", Mode: 0o644, MTime: 1600000000, Size: 3, Seed: 3},
			{Name: "zz-data", Type: "reg", Mode: 0o644, MTime: 1600000000, Size: 3, Seed: 99},
		}},
		Opts:  esgzbuild.Opts{Compression: "gzip", Level: 1, ChunkSize: 1, Workers: 1},
		Cfg:   fullstack.Config{Store: "memory", FSCache: "memory", HTTPCache: "directory", LRUEntries: 1, MaxFds: 1, SyncAdd: true, Direct: true},
		Fault: Fault{Kind: "toc-chunkdigest", A: 4, B: 1, Via: "registry"},
		Steps: []Step{{Op: "skip"}, {Op: "readall", File: 0}, {Op: "readall", File: 1}, {Op: "verify-alt"}, {Op: "readall", File: 0}, {Op: "readall", File: 1}},
	}
	ev := &pbt.Ev{}
	err := run(c, ev)
	reproduced := err != nil || ev.Excluded(id) > 0
	detail := "the chunk cached during the unverified phase was not served after Verify"
	if err != nil {
		detail = err.Error()
	} else if reproduced {
		detail = "after Verify succeeded the mount served a chunk, cached while it was skip-verified, that does not match the verified TOC"
	}
	pbt.Reproduced(id, reproduced, detail)
	if err != nil && !pbt.Known(id) {
		t.Errorf("finding %s reproduces but is not listed as known: %v", id, err)
	}
}
