package c16store

import (
	"fmt"
	"sync"
	"syscall"
	"testing"
	"time"

	digest "github.com/opencontainers/go-digest"
	"pgregory.net/rapid"
	"verifharness/lib/pbt"
)

// ---- concurrent property: every worker only releases what it used before ----

type WOp struct {
	Op     string `json:"op"` // lookup use release
	Img    int    `json:"img"`
	Target Target `json:"target"`
}

type RaceCase struct {
	Images  []ImageSpec `json:"images"`
	Workers [][]WOp     `json:"workers"`
}

func genRace(t *rapid.T) RaceCase {
	c := RaceCase{Images: genImages(t)}
	nw := rapid.IntRange(2, 5).Draw(t, "workers")
	for wi := 0; wi < nw; wi++ {
		var ops []WOp
		n := rapid.IntRange(2, 10).Draw(t, "nops")
		for i := 0; i < n; i++ {
			o := WOp{Op: rapid.SampledFrom([]string{"lookup", "lookup", "use", "use", "release", "release"}).Draw(t, "op"), Img: rapid.IntRange(0, len(c.Images)-1).Draw(t, "img")}
			o.Target = genTarget(t, len(c.Images[o.Img].Layers))
			if o.Op != "lookup" {
				o.Target.Kind = "toc"
			}
			ops = append(ops, o)
		}
		c.Workers = append(c.Workers, ops)
	}
	return c
}

func runRace(c RaceCase, ev *pbt.Ev) error {
	w, err := newWorld(c.Images, "memory", false, false)
	if err != nil {
		return pbt.Inconclusive("setup: %v", err)
	}
	defer w.close()
	var (
		mu    sync.Mutex
		total = map[key]int{}
		errs  []error
		wg    sync.WaitGroup
	)
	fail := func(e error) {
		mu.Lock()
		errs = append(errs, e)
		mu.Unlock()
	}
	for wi, ops := range c.Workers {
		wg.Add(1)
		go func() {
			defer wg.Done()
			mine := map[key]int{}
			for i, o := range ops {
				im := w.imgs[o.Img]
				d := w.targetDigest(o.Img, o.Target)
				li, valid := im.tocs[d]
				k := key{o.Img, d}
				switch o.Op {
				case "lookup":
					p := pre{d: d, li: li, valid: valid}
					r := w.issue(o.Img, o.Target, p)
					if o.Target.What != "info" && !valid && r.errno == 0 {
						fail(pbt.Violf("invalid-digest-served", "worker %d op %d: lookup of %s under image %d digest %s (no TOC digest of this image) succeeded", wi, i, o.Target.What, o.Img, d))
					}
					if r.errno == 0 && r.bad != "" {
						fail(pbt.Violf("wrong-content", "worker %d op %d: image %d layer %d: %s", wi, i, o.Img, li, r.bad))
					}
				case "use":
					w.use(im, d.String())
					mine[k]++
				case "release":
					if mine[k] == 0 {
						continue // workers never release what they didn't use
					}
					mine[k]--
					w.release(im, d.String())
				}
			}
			mu.Lock()
			for k, n := range mine {
				total[k] += n
			}
			mu.Unlock()
		}()
	}
	wg.Wait()
	if len(errs) > 0 {
		return errs[0]
	}
	ev.Class(fmt.Sprintf("workers-%d", len(c.Workers)))
	st := w.lm.VerifState()
	for ref, m := range st.Uses {
		for d, n := range m {
			if n < 0 {
				return pbt.Violf("negative-use-count", "after the workers: use count of %s / %s is %d", ref, d, n)
			}
		}
	}
	for k, n := range total {
		if got := st.Uses[w.imgs[k.img].ref.String()][k.d.String()]; got != n {
			return pbt.Violf("use-count", "after the workers: image %d digest %s: %d uses minus releases, the manager counts %d", k.img, k.d, n, got)
		}
	}
	// give everything back, then every layer must be obtainable again
	for k, n := range total {
		for ; n > 0; n-- {
			w.release(w.imgs[k.img], k.d.String())
		}
	}
	st = w.lm.VerifState()
	for ref, m := range st.Uses {
		for d, n := range m {
			if n != 0 {
				return pbt.Violf("use-count", "after releasing everything: use count of %s / %s is %d", ref, d, n)
			}
		}
	}
	time.Sleep(5 * time.Millisecond)
	nt := false
	for i, im := range w.imgs {
		var ds []digest.Digest
		for d := range im.tocs {
			ds = append(ds, d)
		}
		for _, d := range ds {
			li := im.tocs[d]
			var errno syscall.Errno
			var bad string
			// background resolutions of the racing phase may still be settling; the final lookups are sequential
			for try := 0; try < 3; try++ {
				errno, bad = w.lookup(im, d.String(), "diff", im.layers[li])
				if errno == 0 {
					break
				}
				time.Sleep(50 * time.Millisecond)
			}
			if errno != 0 {
				return pbt.Violf("valid-lookup-failed", "after the workers released everything: lookup of diff for image %d layer %d (TOC %s) fails with errno %d", i, li, d, errno)
			}
			if bad != "" {
				return pbt.Violf("wrong-content", "after the workers: image %d layer %d: %s", i, li, bad)
			}
			if total[key{i, d}] >= 0 {
				nt = true
			}
		}
	}
	ev.NTIf(nt && len(c.Workers) >= 2)
	return nil
}

func TestProp_Race(t *testing.T) {
	pbt.Run(t, pbt.Options{Prop: "C16", Name: "Race", Quick: 84, Thorough: 420, Current: true, Timeout: 120 * time.Second,
		Rule: "rapid: 2-5 goroutines each running 2-10 lookup/use/release operations on the FUSE nodes of 1-3 shared images (a worker only releases what it used before); " +
			"oracle: no lookup of a digest that is not a TOC digest of the image succeeds, served content is the layer's, the use counts after the workers equal uses minus releases and are never negative, and after everything is released every layer can be looked up again; run under the race detector (reports in store/ frames are violations). " +
			"non-trivial = at least two workers and a final re-acquisition.",
	}, genRace, runRace)
}
