// C16 — store layers can be acquired, released and re-acquired in any order.
package c16store

import (
	"bytes"
	"context"
	"encoding/base64"
	"encoding/json"
	"fmt"
	"os"
	"runtime"
	"sort"
	"sync"
	"syscall"
	"testing"
	"time"

	"github.com/containerd/containerd/v2/pkg/reference"
	"github.com/containerd/stargz-snapshotter/fs/config"
	"github.com/containerd/stargz-snapshotter/fs/layer"
	"github.com/containerd/stargz-snapshotter/store"
	fusefs "github.com/hanwen/go-fuse/v2/fs"
	"github.com/hanwen/go-fuse/v2/fuse"
	digest "github.com/opencontainers/go-digest"
	"github.com/opencontainers/image-spec/specs-go"
	ocispec "github.com/opencontainers/image-spec/specs-go/v1"
	"pgregory.net/rapid"
	"verifharness/lib/esgzbuild"
	"verifharness/lib/esgzref"
	"verifharness/lib/fusedrive"
	"verifharness/lib/memreg"
	"verifharness/lib/pbt"
	"verifharness/lib/stores"
	"verifharness/lib/tarmodel"
)

// ---- case ----

type LayerSpec struct {
	Kind   string `json:"kind"`             // esgz | zstd | plain (a gzip layer without TOC: can never be resolved)
	Shared bool   `json:"shared,omitempty"` // identical to layer 0 of image 0
}

type ImageSpec struct {
	Layers []LayerSpec `json:"layers"`
	Index  bool        `json:"index,omitempty"` // the tag points at an image index
}

type Target struct {
	Kind  string `json:"kind"` // toc | blobdigest | foreign | random
	Layer int    `json:"layer"`
	What  string `json:"what"` // diff | blob | info
}

type Op struct {
	Op      string   `json:"op"` // lookup plookup use release fault heal down up
	Img     int      `json:"img"`
	Targets []Target `json:"targets,omitempty"`
	Layer   int      `json:"layer,omitempty"`
	Random  bool     `json:"random,omitempty"` // use/release: a digest that is no layer of the image
	Conn    bool     `json:"conn,omitempty"`   // fault: connection error instead of status 500
}

type Case struct {
	Images     []ImageSpec `json:"images"`
	Store      string      `json:"store"`
	Prefetch   bool        `json:"prefetch,omitempty"`
	Background bool        `json:"background,omitempty"`
	Ops        []Op        `json:"ops"`
}

func genTarget(t *rapid.T, nl int) Target {
	return Target{
		Kind:  rapid.SampledFrom([]string{"toc", "toc", "toc", "toc", "toc", "blobdigest", "foreign", "random"}).Draw(t, "tkind"),
		Layer: rapid.IntRange(0, nl-1).Draw(t, "tlayer"),
		What:  rapid.SampledFrom([]string{"diff", "diff", "blob", "blob", "info"}).Draw(t, "what"),
	}
}

func genImages(t *rapid.T) []ImageSpec {
	var out []ImageSpec
	ni := rapid.IntRange(1, 3).Draw(t, "images")
	for i := 0; i < ni; i++ {
		im := ImageSpec{Index: rapid.IntRange(0, 3).Draw(t, "index") == 0}
		nl := rapid.IntRange(1, 4).Draw(t, "layers")
		for j := 0; j < nl; j++ {
			l := LayerSpec{Kind: rapid.SampledFrom([]string{"esgz", "esgz", "esgz", "esgz", "zstd", "plain"}).Draw(t, "lkind")}
			if i > 0 && rapid.IntRange(0, 4).Draw(t, "shared") == 0 {
				l.Shared = true
			}
			im.Layers = append(im.Layers, l)
		}
		out = append(out, im)
	}
	return out
}

func gen(t *rapid.T) Case {
	c := Case{Images: genImages(t), Store: rapid.SampledFrom([]string{"memory", "memory", "db"}).Draw(t, "store")}
	c.Prefetch = rapid.IntRange(0, 3).Draw(t, "prefetch") == 0
	c.Background = rapid.IntRange(0, 5).Draw(t, "bg") == 0
	n := rapid.IntRange(3, 24).Draw(t, "nops")
	for i := 0; i < n; i++ {
		o := Op{Op: rapid.SampledFrom([]string{"lookup", "lookup", "lookup", "lookup", "plookup", "use", "use", "use", "release", "release", "release", "release", "fault", "heal", "down", "up"}).Draw(t, "op")}
		o.Img = rapid.IntRange(0, len(c.Images)-1).Draw(t, "img")
		nl := len(c.Images[o.Img].Layers)
		o.Layer = rapid.IntRange(0, nl-1).Draw(t, "layer")
		switch o.Op {
		case "lookup":
			o.Targets = []Target{genTarget(t, nl)}
		case "plookup":
			k := rapid.IntRange(2, 4).Draw(t, "k")
			for j := 0; j < k; j++ {
				o.Targets = append(o.Targets, genTarget(t, nl))
			}
		case "use", "release":
			o.Random = rapid.IntRange(0, 9).Draw(t, "rnd") == 0
		case "fault":
			o.Conn = rapid.Bool().Draw(t, "conn")
		}
		c.Ops = append(c.Ops, o)
		if o.Op == "use" && rapid.IntRange(0, 2).Draw(t, "cycle") == 0 {
			// what the property is about: release down to zero, then look the same layer up again
			c.Ops = append(c.Ops, Op{Op: "release", Img: o.Img, Layer: o.Layer, Random: o.Random},
				Op{Op: "lookup", Img: o.Img, Targets: []Target{{Kind: "toc", Layer: o.Layer, What: rapid.SampledFrom([]string{"diff", "blob"}).Draw(t, "rewhat")}}})
		}
	}
	return c
}

// ---- world ----

type layerData struct {
	spec   LayerSpec
	blob   []byte
	dgst   digest.Digest
	toc    digest.Digest // "" for plain layers
	diffID digest.Digest
	files  map[string][]byte
	names  []string
}

type imageData struct {
	ref    reference.Spec
	name   string // base64 directory name
	layers []*layerData
	tocs   map[digest.Digest]int // valid TOC digest -> layer index
}

func buildLayer(img, idx int, spec LayerSpec) (*layerData, error) {
	if spec.Shared {
		img, idx = 0, 0
	}
	a := tarmodel.Archive{Entries: []tarmodel.Entry{
		{Name: "d/", Type: "dir", Mode: 0o755, MTime: 1600000000},
		{Name: "d/a", Type: "reg", Mode: 0o644, MTime: 1600000000, Size: 40 + idx, Seed: uint32(10 + 16*img + idx)},
		{Name: fmt.Sprintf("marker-%d-%d", img, idx), Type: "reg", Mode: 0o644, MTime: 1600000000, Size: 9 + img, Seed: uint32(200 + 16*img + idx)},
		{Name: "c", Type: "reg", Mode: 0o644, MTime: 1600000000, Size: 130, Seed: uint32(30 + idx)},
	}}
	tb, err := a.Tar()
	if err != nil {
		return nil, err
	}
	ld := &layerData{spec: spec, files: map[string][]byte{}}
	if spec.Kind == "plain" {
		ld.blob = esgzbuild.GzipBytes(tb, 1)
		ld.dgst = digest.FromBytes(ld.blob)
		ld.diffID = digest.FromBytes(tb)
		return ld, nil
	}
	comp := "gzip"
	if spec.Kind == "zstd" {
		comp = "zstd"
	}
	res, err := esgzbuild.Build(tb, esgzbuild.Opts{Compression: comp, Level: 1, ChunkSize: 32, Workers: 1})
	if err != nil {
		return nil, err
	}
	p, err := esgzref.Parse(res.Blob, nil)
	if err != nil {
		return nil, err
	}
	fl, err := p.Files()
	if err != nil {
		return nil, err
	}
	for n, f := range fl {
		if len(f.Content) > 0 && n[0] != '.' {
			ld.files[n] = f.Content
			ld.names = append(ld.names, n)
		}
	}
	sort.Strings(ld.names)
	ld.blob, ld.dgst, ld.toc, ld.diffID = res.Blob, digest.FromBytes(res.Blob), digest.Digest(res.TOCDigest), digest.Digest(res.DiffID)
	return ld, nil
}

func addImage(reg *memreg.Registry, i int, spec ImageSpec) (*imageData, error) {
	repo := fmt.Sprintf("img%d", i)
	ref, err := reference.Parse("reg.example/" + repo + ":latest")
	if err != nil {
		return nil, err
	}
	im := &imageData{ref: ref, name: base64.StdEncoding.EncodeToString([]byte(ref.String())), tocs: map[digest.Digest]int{}}
	cfg := ocispec.Image{Platform: ocispec.Platform{Architecture: runtime.GOARCH, OS: "linux"}, RootFS: ocispec.RootFS{Type: "layers"}}
	mf := ocispec.Manifest{Versioned: specs.Versioned{SchemaVersion: 2}, MediaType: ocispec.MediaTypeImageManifest}
	for j, ls := range spec.Layers {
		ld, err := buildLayer(i, j, ls)
		if err != nil {
			return nil, err
		}
		im.layers = append(im.layers, ld)
		if ld.toc != "" {
			im.tocs[ld.toc] = j
		}
		reg.AddBlob(ld.dgst.String(), ld.blob)
		mt := ocispec.MediaTypeImageLayerGzip
		if ls.Kind == "zstd" {
			mt = ocispec.MediaTypeImageLayerZstd
		}
		d := ocispec.Descriptor{MediaType: mt, Digest: ld.dgst, Size: int64(len(ld.blob))}
		if ld.toc != "" {
			d.Annotations = map[string]string{"containerd.io/snapshot/stargz/toc.digest": ld.toc.String()}
		}
		mf.Layers = append(mf.Layers, d)
		cfg.RootFS.DiffIDs = append(cfg.RootFS.DiffIDs, ld.diffID)
	}
	cb, _ := json.Marshal(cfg)
	reg.AddBlob(digest.FromBytes(cb).String(), cb)
	mf.Config = ocispec.Descriptor{MediaType: ocispec.MediaTypeImageConfig, Digest: digest.FromBytes(cb), Size: int64(len(cb))}
	mb, _ := json.Marshal(mf)
	if !spec.Index {
		reg.AddManifest(repo, "latest", ocispec.MediaTypeImageManifest, mb)
		return im, nil
	}
	md := reg.AddManifest(repo, "", ocispec.MediaTypeImageManifest, mb)
	other := "arm64"
	if runtime.GOARCH == "arm64" {
		other = "amd64"
	}
	idx := ocispec.Index{Versioned: specs.Versioned{SchemaVersion: 2}, MediaType: ocispec.MediaTypeImageIndex, Manifests: []ocispec.Descriptor{
		{MediaType: ocispec.MediaTypeImageManifest, Digest: digest.Digest("sha256:" + fmt.Sprintf("%064x", 7+i)), Size: 10, Platform: &ocispec.Platform{Architecture: other, OS: "linux"}},
		{MediaType: ocispec.MediaTypeImageManifest, Digest: digest.Digest(md), Size: int64(len(mb)), Platform: &ocispec.Platform{Architecture: runtime.GOARCH, OS: "linux"}},
	}}
	ib, _ := json.Marshal(idx)
	reg.AddManifest(repo, "latest", ocispec.MediaTypeImageIndex, ib)
	return im, nil
}

type world struct {
	root string
	reg  *memreg.Registry
	lm   *store.LayerManager
	fs   *fusedrive.FS
	imgs []*imageData

	mu     sync.Mutex
	faulty map[string]string // blob digest -> "status" | "conn"
	down   bool
}

func newWorld(images []ImageSpec, storeKind string, prefetch, background bool) (*world, error) {
	root, err := os.MkdirTemp("", "c16")
	if err != nil {
		return nil, err
	}
	w := &world{root: root, reg: memreg.New(), faulty: map[string]string{}}
	for i, is := range images {
		im, err := addImage(w.reg, i, is)
		if err != nil {
			os.RemoveAll(root)
			return nil, err
		}
		w.imgs = append(w.imgs, im)
	}
	w.reg.Decide = func(r *memreg.Req) memreg.Action {
		w.mu.Lock()
		defer w.mu.Unlock()
		if w.down {
			return memreg.Action{Kind: "conn-error"}
		}
		switch w.faulty[r.Digest] {
		case "status":
			return memreg.Action{Kind: "status", Status: 500}
		case "conn":
			return memreg.Action{Kind: "conn-error"}
		}
		return memreg.Action{}
	}
	st, err := stores.Store(storeKind)
	if storeKind == "db" {
		db, derr := stores.NewDB(root + "/metadata.db")
		if derr != nil {
			os.RemoveAll(root)
			return nil, derr
		}
		st, err = stores.DBStore(db), nil
	}
	if err != nil {
		os.RemoveAll(root)
		return nil, err
	}
	cfg := config.Config{NoPrometheus: true, NoPrefetch: !prefetch, NoBackgroundFetch: !background, PrefetchSize: 64,
		HTTPCacheType: "directory", FSCacheType: "directory",
		BlobConfig: config.BlobConfig{FetchTimeoutSec: 5, ValidInterval: 3600}}
	w.lm, err = store.NewLayerManager(context.Background(), root+"/store", w.reg.Hosts(), st, cfg)
	if err != nil {
		os.RemoveAll(root)
		return nil, err
	}
	w.fs = fusedrive.New(store.VerifRootNode(w.lm), true)
	return w, nil
}

func (w *world) close() { os.RemoveAll(w.root) }

// layerNode walks root -> <base64 ref> -> <digest>.
func (w *world) layerNode(im *imageData, d string) (*fusefs.Inode, *fusefs.Inode, syscall.Errno) {
	rn, _, errno := w.fs.Lookup(w.fs.Root, im.name)
	if errno != 0 {
		return nil, nil, errno
	}
	ln, _, errno := w.fs.Lookup(rn, d)
	return rn, ln, errno
}

// lookup performs one lookup of diff/blob/info; on success it checks what the node serves.
// It returns the errno and, for a served node whose content is wrong, a description.
func (w *world) lookup(im *imageData, d string, what string, want *layerData) (syscall.Errno, string) {
	_, ln, errno := w.layerNode(im, d)
	if errno != 0 {
		return errno, ""
	}
	n, _, errno := w.fs.Lookup(ln, what)
	if errno != 0 {
		return errno, ""
	}
	if want == nil {
		return 0, ""
	}
	switch what {
	case "diff":
		sub := &fusedrive.FS{Root: n}
		for _, name := range want.names {
			fn, _, errno := sub.Walk(name)
			if errno != 0 {
				return 0, fmt.Sprintf("diff: file %q: lookup errno %d", name, errno)
			}
			h, errno := sub.Open(fn)
			if errno != 0 {
				return 0, fmt.Sprintf("diff: file %q: open errno %d", name, errno)
			}
			buf := make([]byte, len(want.files[name])+8)
			k, errno := h.Read(buf, 0)
			h.Release()
			if errno != 0 || !bytes.Equal(buf[:k], want.files[name]) {
				return 0, fmt.Sprintf("diff: file %q: read errno %d, %d bytes, want %d bytes of the layer's file", name, errno, k, len(want.files[name]))
			}
		}
	case "blob":
		h, errno := w.fs.Open(n)
		if errno != 0 {
			return 0, fmt.Sprintf("blob: open errno %d", errno)
		}
		buf := make([]byte, len(want.blob)+8)
		k, errno := h.Read(buf, 0)
		h.Release()
		if errno != 0 || !bytes.Equal(buf[:k], want.blob) {
			return 0, fmt.Sprintf("blob: read errno %d, %d bytes, want the %d bytes of the layer blob", errno, k, len(want.blob))
		}
	}
	return 0, ""
}

func (w *world) info(im *imageData, d string) (store.Layer, syscall.Errno, error) {
	_, ln, errno := w.layerNode(im, d)
	if errno != 0 {
		return store.Layer{}, errno, nil
	}
	n, _, errno := w.fs.Lookup(ln, "info")
	if errno != 0 {
		return store.Layer{}, errno, nil
	}
	h, errno := w.fs.Open(n)
	if errno != 0 {
		return store.Layer{}, errno, nil
	}
	defer h.Release()
	buf := make([]byte, 4096)
	k, errno := h.Read(buf, 0)
	if errno != 0 {
		return store.Layer{}, errno, nil
	}
	var l store.Layer
	err := json.Unmarshal(buf[:k], &l)
	return l, 0, err
}

func (w *world) use(im *imageData, d string) syscall.Errno {
	_, ln, errno := w.layerNode(im, d)
	if errno != 0 {
		return errno
	}
	cr, ok := ln.Operations().(fusefs.NodeCreater)
	if !ok {
		return syscall.ENOSYS
	}
	var out fuse.EntryOut
	_, _, _, errno = cr.Create(context.Background(), "use", 0, 0o600, &out)
	return errno
}

func (w *world) release(im *imageData, d string) syscall.Errno {
	rn, _, errno := w.fs.Lookup(w.fs.Root, im.name)
	if errno != 0 {
		return errno
	}
	rd, ok := rn.Operations().(fusefs.NodeRmdirer)
	if !ok {
		return syscall.ENOSYS
	}
	return rd.Rmdir(context.Background(), d)
}

// quiesce waits until every layer of the image has a resolution result recorded (lookups return as
// soon as the wanted layer is there; the other layers finish in the background).
func (w *world) quiesce(im *imageData) bool {
	deadline := time.Now().Add(20 * time.Second)
	for {
		st := w.lm.VerifState()
		m := st.Memo[im.ref.String()]
		done := true
		for _, l := range im.layers {
			if _, ok := m[l.dgst.String()]; !ok {
				done = false
			}
		}
		if done {
			return true
		}
		if time.Now().After(deadline) {
			return false
		}
		time.Sleep(2 * time.Millisecond)
	}
}

func randomDigest(k int) digest.Digest {
	return digest.FromString(fmt.Sprintf("no such layer %d", k))
}

func (w *world) targetDigest(imgIdx int, t Target) digest.Digest {
	im := w.imgs[imgIdx]
	l := im.layers[t.Layer%len(im.layers)]
	switch t.Kind {
	case "toc":
		if l.toc != "" {
			return l.toc
		}
		return l.dgst // a plain layer has no TOC digest; its blob digest is no valid name either
	case "blobdigest":
		return l.dgst
	case "foreign":
		for k := 1; k < len(w.imgs); k++ {
			for _, ol := range w.imgs[(imgIdx+k)%len(w.imgs)].layers {
				if _, mine := im.tocs[ol.toc]; ol.toc != "" && !mine {
					return ol.toc
				}
			}
		}
	}
	return randomDigest(t.Layer)
}

// ---- sequential property ----

type result struct {
	errno syscall.Errno
	bad   string
	info  store.Layer
	jerr  error
}

type pre struct {
	d       digest.Digest
	li      int
	valid   bool
	memo    bool // the looked-up node already exists in memory: the lookup doesn't reach the manager
	started bool // the lookup makes the manager resolve the image
	hadRes  bool
}

func (w *world) hasChild(im *imageData, d digest.Digest, what string) bool {
	rn := w.fs.Root.GetChild(im.name)
	if rn == nil {
		return false
	}
	ln := rn.GetChild(d.String())
	return ln != nil && ln.GetChild(what) != nil
}

func (w *world) isDown() bool {
	w.mu.Lock()
	defer w.mu.Unlock()
	return w.down
}

func (w *world) isFaulty(l *layerData) bool {
	w.mu.Lock()
	defer w.mu.Unlock()
	return w.down || w.faulty[l.dgst.String()] != ""
}

func (w *world) issue(img int, t Target, p pre) result {
	im := w.imgs[img]
	if t.What == "info" {
		var r result
		r.info, r.errno, r.jerr = w.info(im, p.d.String())
		return r
	}
	var want *layerData
	if p.valid {
		want = im.layers[p.li]
	}
	errno, bad := w.lookup(im, p.d.String(), t.What, want)
	return result{errno: errno, bad: bad}
}

type key struct {
	img int
	d   digest.Digest
}

func run(c Case, ev *pbt.Ev) error {
	w, err := newWorld(c.Images, c.Store, c.Prefetch, c.Background)
	if err != nil {
		return pbt.Inconclusive("setup: %v", err)
	}
	defer w.close()
	var (
		uses     = map[key]int{}
		spurious = map[int]bool{}        // a release without a matching use happened on this image
		mayErr   = map[key]bool{}        // (img, blob digest): a failed resolution may be recorded
		resolved = map[key]layer.Layer{} // (img, TOC digest): layer object seen after a successful lookup since the last drop
	)
	sumUses := func(img int) int {
		n := 0
		for k, v := range uses {
			if k.img == img {
				n += v
			}
		}
		return n
	}
	prepare := func(img int, t Target) pre {
		im := w.imgs[img]
		p := pre{d: w.targetDigest(img, t)}
		p.li, p.valid = im.tocs[p.d]
		p.memo = w.hasChild(im, p.d, t.What)
		p.hadRes = resolved[key{img, p.d}] != nil
		p.started = t.What != "info" && !p.memo && !w.isDown() && w.lm.VerifLayer(im.ref, p.d) == nil
		if t.What != "info" && !p.memo {
			// a lookup that reaches the manager tries every layer of the image that has no recorded result
			for _, l := range im.layers {
				if w.isFaulty(l) {
					mayErr[key{img, l.dgst}] = true
				}
			}
		}
		return p
	}
	judge := func(step, img int, t Target, p pre, r result, parallel bool) error {
		im := w.imgs[img]
		d := p.d
		ev.Class("lookup-" + t.What)
		if t.What == "info" {
			if r.errno != 0 {
				if w.isDown() {
					return nil // manifest not reachable
				}
				return pbt.Violf("info-failed", "step %d: info of image %d digest %s: errno %d with a reachable registry", step, img, d, r.errno)
			}
			if r.jerr != nil || r.info.TOCDigest != d {
				return pbt.Violf("info-content", "step %d: info of image %d digest %s: %+v (%v)", step, img, d, r.info, r.jerr)
			}
			if p.valid {
				want := im.layers[p.li].diffID.String()
				if got, ok := r.info.Flags["expected-layer-diffid"]; ok && got != want {
					return pbt.Violf("info-content", "step %d: info of image %d layer %d: expected-layer-diffid %s, the config says %s", step, img, p.li, got, want)
				} else if !ok && !p.memo && p.hadRes && !parallel {
					return pbt.Violf("info-content", "step %d: info of image %d layer %d (resolved): no expected-layer-diffid", step, img, p.li)
				}
			}
			return nil
		}
		if !p.valid {
			ev.Class("lookup-invalid-" + t.Kind)
			if r.errno == 0 {
				return pbt.Violf("invalid-digest-served", "step %d: lookup of %s under image %d digest %s (%s, not the TOC digest of a layer of this image) succeeded", step, t.What, img, d, t.Kind)
			}
			return nil
		}
		want := im.layers[p.li]
		k := key{img, d}
		if r.errno == 0 {
			delete(mayErr, key{img, want.dgst})
			if r.bad != "" && w.isFaulty(want) {
				ev.Class("read-failed-under-fault") // the node is served but its bytes need the registry
			} else if r.bad != "" {
				return pbt.Violf("wrong-content", "step %d: image %d layer %d: %s", step, img, p.li, r.bad)
			}
			if l := w.lm.VerifLayer(im.ref, d); l != nil && resolved[k] == nil {
				resolved[k] = l
			}
			return nil
		}
		if w.isFaulty(want) || mayErr[key{img, want.dgst}] {
			ev.Class("lookup-failed-under-fault")
			mayErr[key{img, want.dgst}] = true
			return nil
		}
		return pbt.Violf("valid-lookup-failed", "step %d: lookup of %s for image %d layer %d (TOC %s) failed with errno %d; the registry is healthy and no failed resolution is outstanding (outstanding uses of the image: %d)", step, t.What, img, p.li, d, r.errno, sumUses(img))
	}
	checkState := func(step int, what string) error {
		st := w.lm.VerifState()
		for ref, m := range st.Uses {
			for d, n := range m {
				if n < 0 {
					return pbt.Violf("negative-use-count", "step %d (%s): use count of %s / %s is %d", step, what, ref, d, n)
				}
			}
		}
		for i, im := range w.imgs {
			ref := im.ref.String()
			for k, n := range uses {
				if k.img != i {
					continue
				}
				if got := st.Uses[ref][k.d.String()]; got != n {
					return pbt.Violf("use-count", "step %d (%s): image %d digest %s: %d uses minus releases, the manager counts %d", step, what, i, k.d, n, got)
				}
				if l := resolved[k]; n > 0 && l != nil && w.lm.VerifLayer(im.ref, k.d) != l {
					return pbt.Violf("released-while-used", "step %d (%s): image %d layer %s has %d outstanding uses but the manager no longer holds the layer object it handed out", step, what, i, k.d, n)
				}
			}
			if !spurious[i] {
				if got := st.PoolUses[ref]; got != sumUses(i) {
					return pbt.Violf("pool-count", "step %d (%s): image %d has %d outstanding uses, the reference pool counts %d", step, what, i, sumUses(i), got)
				}
			}
		}
		return nil
	}

	reacquired := false
	zeroed := map[key]bool{}
	for step, o := range c.Ops {
		im := w.imgs[o.Img]
		l := im.layers[o.Layer%len(im.layers)]
		d := l.toc
		if d == "" || o.Random {
			d = randomDigest(o.Layer)
		}
		k := key{o.Img, d}
		ev.Steps++
		switch o.Op {
		case "lookup", "plookup":
			pres := make([]pre, len(o.Targets))
			ress := make([]result, len(o.Targets))
			started := false
			for i, t := range o.Targets {
				pres[i] = prepare(o.Img, t)
				started = started || pres[i].started
			}
			if len(o.Targets) == 1 {
				ress[0] = w.issue(o.Img, o.Targets[0], pres[0])
			} else {
				ev.Class("parallel-lookups")
				var wg sync.WaitGroup
				for i, t := range o.Targets {
					wg.Add(1)
					go func() {
						defer wg.Done()
						ress[i] = w.issue(o.Img, t, pres[i])
					}()
				}
				wg.Wait()
			}
			if started && !w.quiesce(im) {
				return pbt.Inconclusive("step %d: resolution of image %d did not settle", step, o.Img)
			}
			for i, t := range o.Targets {
				if err := judge(step, o.Img, t, pres[i], ress[i], len(o.Targets) > 1); err != nil {
					return err
				}
				if zeroed[key{o.Img, pres[i].d}] && pres[i].valid && t.What != "info" && ress[i].errno == 0 {
					reacquired = true
				}
			}
		case "use":
			ev.Class("use")
			w.use(im, d.String()) // (the store answers ENOENT by design; the count is what matters)
			uses[k]++
		case "release":
			w.release(im, d.String())
			if uses[k] == 0 {
				ev.Class("release-without-use")
				spurious[o.Img] = true // whatever it answers, the counts checked below must not go negative
				break
			}
			uses[k]--
			ev.Class("release")
			if uses[k] > 0 {
				break
			}
			ev.Class("release-to-zero")
			delete(uses, k)
			delete(resolved, k)
			zeroed[k] = true
			st := w.lm.VerifState()
			ref := im.ref.String()
			for _, have := range st.Layers[ref] {
				if have == d.String() {
					return pbt.Violf("layer-kept-after-last-release", "step %d: image %d layer %s: last use released but the manager still holds the layer", step, o.Img, d)
				}
			}
			if sumUses(o.Img) == 0 {
				ev.Class("image-released-to-zero")
				if m := st.Memo[ref]; len(m) != 0 {
					return pbt.Violf("resolution-memo-kept", "step %d: the last use of image %d was released but %d recorded resolution results remain", step, o.Img, len(m))
				}
				if m := st.Uses[ref]; len(m) != 0 {
					return pbt.Violf("use-bookkeeping-kept", "step %d: the last use of image %d was released but the use table still has %d entries for it", step, o.Img, len(m))
				}
				for kk := range mayErr {
					if kk.img == o.Img {
						delete(mayErr, kk)
					}
				}
			}
		case "fault":
			ev.Class("fault")
			w.mu.Lock()
			if o.Conn {
				w.faulty[l.dgst.String()] = "conn"
			} else {
				w.faulty[l.dgst.String()] = "status"
			}
			w.mu.Unlock()
		case "heal":
			w.mu.Lock()
			delete(w.faulty, l.dgst.String())
			w.mu.Unlock()
		case "down":
			ev.Class("fault")
			w.mu.Lock()
			w.down = true
			w.mu.Unlock()
		case "up":
			w.mu.Lock()
			w.down = false
			w.mu.Unlock()
		}
		if err := checkState(step, o.Op); err != nil {
			return err
		}
	}
	ev.ClassIf(reacquired, "lookup-after-release-to-zero")
	ev.NTIf(reacquired)
	return nil
}

func TestProp_Store(t *testing.T) {
	pbt.Run(t, pbt.Options{Prop: "C16", Name: "Store", Quick: 1500, Thorough: 7500, Current: true, Timeout: 120 * time.Second,
		Rule: "rapid: 1-3 images (1-4 layers each: eStargz, zstd:chunked or plain gzip; optionally behind an image index; layers optionally shared between images) served by an in-memory registry; " +
			"3-24 operations on the store's FUSE nodes (root -> base64(ref) -> digest -> diff|blob|info lookups, single or racing; use = create 'use'; release = rmdir), with digests that are TOC digests, blob digests, TOC digests of other images or random, releases without a use, and registry faults (status 500 / connection error per blob, registry down); " +
			"oracle: a model of uses per (image, digest) and of which layers may carry a recorded failed resolution; after each step: lookup result (valid digests must be served with the layer's files / blob bytes, anything else refused), use counts, the held layer object while uses are outstanding, reference-pool count, and after the last release of an image that its layers and recorded resolutions are gone. " +
			"non-trivial = a layer is looked up successfully again after its use count went down to zero.",
		Floors: map[string]float64{"lookup-after-release-to-zero": 0.15, "image-released-to-zero": 0.2, "parallel-lookups": 0.1, "fault": 0.2},
	}, gen, run)
}
