// C05 — memory and DB metadata stores expose the same filesystem for the same blob.
package c05stores

import (
	"bytes"
	"encoding/json"
	"fmt"
	"io"
	"os"
	"sort"
	"strings"
	"sync"
	"testing"
	"time"

	dbmetadata "github.com/containerd/stargz-snapshotter/cmd/containerd-stargz-grpc/db"
	"github.com/containerd/stargz-snapshotter/metadata"
	bolt "go.etcd.io/bbolt"
	"pgregory.net/rapid"
	"verifharness/lib/esgzbuild"
	"verifharness/lib/esgzref"
	"verifharness/lib/pbt"
	"verifharness/lib/stores"
	"verifharness/lib/tarmodel"
)

// Liberties are the ways a third-party TOC may deviate from what this builder emits while
// staying within the documented format.
type Liberties struct {
	DropDirEntries  bool   `json:"drop_dir_entries,omitempty"`  // directories only implicit
	RepeatDirs      int    `json:"repeat_dirs,omitempty"`       // repeat this many directory entries (with other attrs)
	NoFileDigest    bool   `json:"no_file_digest,omitempty"`    // chunkDigest only
	Spell           string `json:"spell,omitempty"`             // prefix put before TOC names: "./", "/", "../"
	TrailingWS      int    `json:"trailing_ws,omitempty"`       // whitespace bytes after the TOC JSON
	ShareStreams    int    `json:"share_streams,omitempty"`     // innerOffset streams
	RootEntry       bool   `json:"root_entry,omitempty"`        // explicit "./" entry
	ZeroAfterRepeat bool   `json:"zero_after_repeat,omitempty"` // the repeated directory entry has zero uid/gid/mode bits
	Indent          bool   `json:"indent,omitempty"`
}

type Case struct {
	Archive   tarmodel.Archive `json:"archive"`
	Source    string           `json:"source"` // builder | thirdparty
	Opts      esgzbuild.Opts   `json:"opts"`
	Lib       Liberties        `json:"liberties"`
	ReadPlans []ReadPlan       `json:"reads"`
	UseClone  bool             `json:"use_clone,omitempty"`
	PreReader bool             `json:"pre_reader,omitempty"`
	Excluded  int              `json:"excluded,omitempty"`
}

type ReadPlan struct {
	File  int `json:"file"`  // index into the sorted list of regular files (mod n)
	Chunk int `json:"chunk"` // chunk index (mod n)
	A     int `json:"a"`     // start inside the chunk (mod size)
	L     int `json:"l"`     // length (clipped to the chunk)
}

func gen(t *rapid.T) Case {
	var c Case
	c.Source = rapid.SampledFrom([]string{"builder", "thirdparty", "thirdparty"}).Draw(t, "source")
	c.Opts = esgzbuild.GenOpts(t, []string{"gzip", "gzip", "zstd", "external"})
	cs := c.Opts.ChunkSize
	if cs == 0 {
		cs = 64
	}
	c.Archive = tarmodel.Gen(t, tarmodel.GenOpts{MaxEntries: 12, ChunkSize: cs, Hardlinks: true, Devices: true, Dups: c.Source == "builder", Spellings: c.Source == "builder", Xattrs: true, RootEntry: c.Source == "builder", BigIDs: true, ManyChunks: true, ExtremeTimes: true})
	if c.Source == "thirdparty" {
		c.Lib = Liberties{
			DropDirEntries: rapid.Bool().Draw(t, "dropdirs"),
			RepeatDirs:     rapid.IntRange(0, 2).Draw(t, "repeatdirs"),
			NoFileDigest:   rapid.Bool().Draw(t, "nofiledigest"),
			Spell:          rapid.SampledFrom([]string{"", "", "./", "/", "../"}).Draw(t, "spell"),
			TrailingWS:     rapid.SampledFrom([]int{0, 0, 1, 2, 100, 600, 5000, 8192}).Draw(t, "ws"),
			ShareStreams:   rapid.SampledFrom([]int{0, 0, 64, 100000}).Draw(t, "share"),
			RootEntry:      rapid.IntRange(0, 3).Draw(t, "rootentry") == 0,
			Indent:         rapid.Bool().Draw(t, "indent"),
		}
		c.Lib.ZeroAfterRepeat = c.Lib.RepeatDirs > 0 && rapid.Bool().Draw(t, "zerorepeat")
	}
	if c.Opts.Compression == "zstd" && c.Lib.TrailingWS > 0 && pbt.Known("C05-zstd-toc-digest-trailing-bytes") {
		c.Excluded, c.Lib.TrailingWS = 1, 0 // excluded by construction while the finding is open
	}
	c.ReadPlans = rapid.SliceOfN(rapid.Custom(func(t *rapid.T) ReadPlan {
		return ReadPlan{File: rapid.IntRange(0, 20).Draw(t, "file"), Chunk: rapid.IntRange(0, 5).Draw(t, "chunk"), A: rapid.IntRange(0, 200).Draw(t, "a"), L: rapid.IntRange(0, 200).Draw(t, "l")}
	}), 0, 6).Draw(t, "reads")
	c.UseClone = rapid.Bool().Draw(t, "clone")
	c.PreReader = rapid.Bool().Draw(t, "prereader")
	return c
}

// blobOf builds the blob of a case; tocJSON is the exact TOC JSON file content (anchor of the digest).
func blobOf(c Case) (blob, ext, tocFile []byte, err error) {
	tarBytes, err := c.Archive.Tar()
	if err != nil {
		return nil, nil, nil, pbt.Inconclusive("generator produced an archive the standard library refuses: %v", err)
	}
	if c.Source == "builder" {
		res, err := esgzbuild.Build(tarBytes, c.Opts)
		if err != nil {
			return nil, nil, nil, pbt.Inconclusive("builder refused a valid archive (C03's business): %v", err)
		}
		p, err := esgzref.Parse(res.Blob, res.ExternalTOC)
		if err != nil {
			return nil, nil, nil, pbt.Inconclusive("reference parser refuses the built blob (C03's business): %v", err)
		}
		return res.Blob, res.ExternalTOC, p.TOCJSON, nil
	}
	raw, err := tarmodel.ReadTar(tarBytes)
	if err != nil {
		return nil, nil, nil, pbt.Inconclusive("%v", err)
	}
	var files []esgzref.LayoutFile
	if c.Lib.RootEntry {
		files = append(files, esgzref.LayoutFile{Hdr: tarmodel.Entry{Name: "./", Type: "dir", Mode: 0o751, UID: 7, GID: 8, MTime: 1500000000, Xattrs: map[string][]byte{"user.root": []byte("r")}}.Header()})
	}
	for _, r := range raw {
		files = append(files, esgzref.LayoutFile{Hdr: r.Hdr, Content: r.Content})
	}
	payload, ents, err := esgzref.Layout(files, esgzref.LayoutOpts{Kind: c.Opts.Compression, ChunkSize: c.Opts.EffectiveChunk(), ShareStreams: c.Lib.ShareStreams})
	if err != nil {
		return nil, nil, nil, pbt.Inconclusive("layout: %v", err)
	}
	// liberties
	out := []*esgzref.Entry{} // an empty list is "entries": [], not null
	repeated := 0
	for _, e := range ents {
		if e.Type == "dir" && c.Lib.DropDirEntries && tarmodel.Clean(e.Name) != "" {
			continue
		}
		if c.Lib.NoFileDigest {
			e.Digest = ""
		}
		if c.Lib.Spell != "" && tarmodel.Clean(e.Name) != "" {
			e.Name = c.Lib.Spell + tarmodel.Clean(e.Name)
			if e.Type == "dir" {
				e.Name += "/"
			}
			if e.Type == "hardlink" {
				e.LinkName = c.Lib.Spell + tarmodel.Clean(e.LinkName)
			}
		}
		out = append(out, e)
		if e.Type == "dir" && repeated < c.Lib.RepeatDirs && tarmodel.Clean(e.Name) != "" {
			repeated++
			d := *e
			if c.Lib.ZeroAfterRepeat {
				d.UID, d.GID, d.ModTime, d.Xattrs = 0, 0, "", nil
				d.Mode = 0o700
			} else {
				d.UID, d.GID, d.Mode = e.UID+1, e.GID+2, 0o711
				d.Xattrs = map[string][]byte{"user.rep": []byte("x")}
			}
			out = append(out, &d)
		}
	}
	toc := esgzref.TOC{Version: 1, Entries: out}
	var js []byte
	if c.Lib.Indent {
		js, _ = json.MarshalIndent(toc, "", "\t")
	} else {
		js, _ = json.Marshal(toc)
	}
	trailer := []byte(strings.Repeat(" ", c.Lib.TrailingWS))
	if c.Lib.TrailingWS > 1 {
		trailer[len(trailer)-1] = '\n'
	}
	blob, ext = esgzref.Wrap(c.Opts.Compression, payload, js, trailer)
	return blob, ext, append(append([]byte{}, js...), trailer...), nil
}

type node struct {
	Path string
	ID   uint32
	Attr metadata.Attr
	Mode os.FileMode
	Off  int64
	OffE string
}

type view struct {
	err     error // constructor / first-use error
	digest  string
	nodes   []node
	walkErr error
}

func snapshot(r metadata.Reader) (v view) {
	v.digest = r.TOCDigest().String()
	_, _, v.walkErr = stores.Walk(r, stores.WalkLimits{MaxDepth: 30, MaxNodes: 5000}, func(ni stores.NodeInfo) error {
		n := node{Path: ni.Path, ID: ni.ID, Attr: ni.Attr, Mode: ni.Mode}
		if ni.Attr.Mode.IsRegular() {
			off, err := r.GetOffset(ni.ID)
			n.Off = off
			if err != nil {
				n.OffE = "error"
			}
		}
		v.nodes = append(v.nodes, n)
		return nil
	})
	return
}

func openStore(kind string, blob, ext []byte) (metadata.Reader, error) {
	r, err := stores.Open(kind, blob, ext)
	if err != nil {
		return nil, err
	}
	// "accept" = the constructor and the first non-root metadata call succeed (the DB store parses the
	// entries in the background and reports TOC errors on first use).
	if lerr := r.ForeachChild(r.RootID(), func(string, uint32, os.FileMode) bool { return false }); lerr != nil {
		r.Close()
		return nil, lerr
	}
	return r, nil
}

func attrDiff(a, b metadata.Attr, dir bool) string {
	var d []string
	if a.Size != b.Size {
		d = append(d, fmt.Sprintf("size %d/%d", a.Size, b.Size))
	}
	if !a.ModTime.Equal(b.ModTime) {
		d = append(d, fmt.Sprintf("modtime %v/%v", a.ModTime, b.ModTime))
	}
	if a.LinkName != b.LinkName {
		d = append(d, fmt.Sprintf("linkname %q/%q", a.LinkName, b.LinkName))
	}
	if a.Mode != b.Mode {
		d = append(d, fmt.Sprintf("mode %v/%v", a.Mode, b.Mode))
	}
	if a.UID != b.UID || a.GID != b.GID {
		d = append(d, fmt.Sprintf("owner %d:%d/%d:%d", a.UID, a.GID, b.UID, b.GID))
	}
	if a.DevMajor != b.DevMajor || a.DevMinor != b.DevMinor {
		d = append(d, fmt.Sprintf("dev %d:%d/%d:%d", a.DevMajor, a.DevMinor, b.DevMajor, b.DevMinor))
	}
	na, nb := a.NumLink, b.NumLink
	if na == 0 {
		na = 1 // "zero NumLink means one" (TOCEntry.NumLink documentation)
	}
	if nb == 0 {
		nb = 1
	}
	if na != nb {
		d = append(d, fmt.Sprintf("numlink %d/%d", na, nb))
	}
	ka := make([]string, 0)
	for k := range a.Xattrs {
		ka = append(ka, k)
	}
	for k := range b.Xattrs {
		if _, ok := a.Xattrs[k]; !ok {
			ka = append(ka, k)
		}
	}
	sort.Strings(ka)
	for _, k := range ka {
		va, oka := a.Xattrs[k]
		vb, okb := b.Xattrs[k]
		if oka != okb || !bytes.Equal(va, vb) {
			d = append(d, fmt.Sprintf("xattr %q: %q(%v)/%q(%v)", k, va, oka, vb, okb))
		}
	}
	return strings.Join(d, ", ")
}

// compareViews is the differential oracle between the two stores.
func compareViews(m, d view) error {
	if m.digest != d.digest {
		return pbt.Violf("toc-digest-differs", "TOCDigest: memory %s, db %s", m.digest, d.digest)
	}
	if (m.walkErr == nil) != (d.walkErr == nil) {
		return pbt.Violf("walk-error-differs", "walking the tree: memory err=%v, db err=%v", m.walkErr, d.walkErr)
	}
	if len(m.nodes) != len(d.nodes) {
		return pbt.Violf("tree-differs", "memory store lists %d names, db store %d: %v vs %v", len(m.nodes), len(d.nodes), paths(m.nodes), paths(d.nodes))
	}
	idM, idD := map[uint32]string{}, map[uint32]string{}
	for i := range m.nodes {
		a, b := m.nodes[i], d.nodes[i]
		if a.Path != b.Path {
			return pbt.Violf("tree-differs", "name %d: memory %q, db %q", i, a.Path, b.Path)
		}
		if a.Mode != b.Mode {
			return pbt.Violf("listing-mode-differs", "%q: mode in the parent's listing: memory %v, db %v", a.Path, a.Mode, b.Mode)
		}
		if s := attrDiff(a.Attr, b.Attr, a.Attr.Mode.IsDir()); s != "" {
			return pbt.Violf("attr-differs", "%q: memory/db: %s", a.Path, s)
		}
		if a.OffE != b.OffE || (a.OffE == "" && a.Off != b.Off) {
			return pbt.Violf("offset-differs", "%q: GetOffset memory %d(%s), db %d(%s)", a.Path, a.Off, a.OffE, b.Off, b.OffE)
		}
		// hardlink identity: the partition of names by id must agree
		pa, oka := idM[a.ID]
		pb, okb := idD[b.ID]
		if oka != okb || pa != pb {
			return pbt.Violf("hardlink-identity-differs", "%q shares its node with %q in the memory store and with %q in the db store", a.Path, pa, pb)
		}
		if !oka {
			idM[a.ID], idD[b.ID] = a.Path, b.Path
		}
	}
	return nil
}

func paths(ns []node) []string {
	var o []string
	for _, n := range ns {
		o = append(o, n.Path)
	}
	return o
}

type chunkInfo struct {
	off, size int64
	dgst      string
	ok        bool
}

func compareFiles(c Case, rm, rd metadata.Reader, m view, ev *pbt.Ev) error {
	// regular files present in both (by path, nodes are index-aligned)
	var files []int
	for i, n := range m.nodes {
		if n.Attr.Mode.IsRegular() {
			files = append(files, i)
		}
	}
	byPathD := map[string]uint32{}
	for _, n := range snapshotIDs(rd) {
		byPathD[n.Path] = n.ID
	}
	var preM, preD []string
	open := func(r metadata.Reader, id uint32, log *[]string) (metadata.File, error) {
		if c.PreReader {
			return r.OpenFileWithPreReader(id, func(nid uint32, chunkOffset, chunkSize int64, chunkDigest string, rr io.Reader) error {
				b, err := io.ReadAll(rr)
				if err != nil {
					return err
				}
				*log = append(*log, fmt.Sprintf("%d+%d %s %s", chunkOffset, chunkSize, chunkDigest, esgzref.Sha256(b)))
				return nil
			})
		}
		return r.OpenFile(id)
	}
	for _, fi := range files {
		n := m.nodes[fi]
		fm, errM := open(rm, n.ID, &preM)
		fd, errD := open(rd, byPathD[n.Path], &preD)
		if (errM == nil) != (errD == nil) {
			return pbt.Violf("openfile-differs", "%q: OpenFile memory err=%v, db err=%v", n.Path, errM, errD)
		}
		if errM != nil {
			continue
		}
		// chunk boundaries: for every boundary of the memory store's view +-1, 0, size, size+1
		probe := map[int64]bool{0: true, n.Attr.Size: true, n.Attr.Size + 1: true, n.Attr.Size - 1: true}
		var bounds []int64
		for off := int64(0); off < n.Attr.Size; {
			o, s, _, ok := fm.ChunkEntryForOffset(off)
			if !ok || s <= 0 {
				break
			}
			bounds = append(bounds, o)
			probe[o], probe[o+1], probe[o-1], probe[o+s-1] = true, true, true, true
			off = o + s
		}
		var ps []int64
		for p := range probe {
			if p >= 0 {
				ps = append(ps, p)
			}
		}
		sort.Slice(ps, func(i, j int) bool { return ps[i] < ps[j] })
		for _, p := range ps {
			var a, b chunkInfo
			a.off, a.size, a.dgst, a.ok = fm.ChunkEntryForOffset(p)
			b.off, b.size, b.dgst, b.ok = fd.ChunkEntryForOffset(p)
			if p >= n.Attr.Size {
				// past the end there is nothing to agree on except that a reported chunk does not contain p
				continue
			}
			if a != b {
				return pbt.Violf("chunk-entry-differs", "%q: ChunkEntryForOffset(%d): memory %+v, db %+v", n.Path, p, a, b)
			}
		}
		ev.ClassIf(len(bounds) > 1, "multi-chunk-file")
	}
	// reads inside one chunk (what every caller does: fs/reader only reads whole chunks / chunk-bounded sections)
	for _, rp := range c.ReadPlans {
		if len(files) == 0 {
			break
		}
		n := m.nodes[files[rp.File%len(files)]]
		if n.Attr.Size == 0 {
			continue
		}
		fm, errM := open(rm, n.ID, &preM)
		fd, errD := open(rd, byPathD[n.Path], &preD)
		if errM != nil || errD != nil {
			continue
		}
		var chunks [][2]int64
		for off := int64(0); off < n.Attr.Size; {
			o, s, _, ok := fm.ChunkEntryForOffset(off)
			if !ok || s <= 0 {
				break
			}
			chunks = append(chunks, [2]int64{o, s})
			off = o + s
		}
		if len(chunks) == 0 {
			continue
		}
		ch := chunks[rp.Chunk%len(chunks)]
		a := int64(rp.A) % ch[1]
		l := int64(rp.L)
		if a+l > ch[1] {
			l = ch[1] - a
		}
		if l == 0 {
			continue
		}
		bm, bd := make([]byte, l), make([]byte, l)
		nm, em := fm.ReadAt(bm, ch[0]+a)
		nd, ed := fd.ReadAt(bd, ch[0]+a)
		if (em != nil && em != io.EOF) != (ed != nil && ed != io.EOF) || nm != nd || !bytes.Equal(bm[:nm], bd[:nd]) {
			return pbt.Violf("file-bytes-differ", "%q: ReadAt(%d bytes at %d): memory n=%d err=%v, db n=%d err=%v, equal=%v", n.Path, l, ch[0]+a, nm, em, nd, ed, bytes.Equal(bm[:nm], bd[:nd]))
		}
		ev.Steps++
	}
	if c.PreReader {
		sort.Strings(preM)
		sort.Strings(preD)
		for _, s := range append(append([]string{}, preM...), preD...) {
			// every pre-read chunk must carry the bytes its digest names
			f := strings.Fields(s)
			if len(f) == 3 && f[1] != f[2] && strings.HasPrefix(f[1], "sha256:") {
				return pbt.Violf("prereader-bytes", "a pre-read chunk %s does not hash to its digest", s)
			}
		}
		ev.ClassIf(len(preM)+len(preD) > 0, "pre-reader-called")
	}
	return nil
}

func dbNewReader(db *bolt.DB, sr *io.SectionReader, ext []byte) (metadata.Reader, error) {
	return dbmetadata.NewReader(db, sr, metadata.WithDecompressors(stores.Decompressors(ext)...))
}

func snapshotIDs(r metadata.Reader) []node {
	return snapshot(r).nodes
}

func run(c Case, ev *pbt.Ev) error {
	blob, ext, tocFile, err := blobOf(c)
	if err != nil {
		return err
	}
	rm, errM := openStore("memory", blob, ext)
	rd, errD := openStore("db", blob, ext)
	if rm != nil {
		defer rm.Close()
	}
	if rd != nil {
		defer rd.Close()
	}
	ev.Class("source-" + c.Source)
	ev.Class("compression-" + c.Opts.Compression)
	if c.Excluded > 0 {
		ev.Exclude("C05-zstd-toc-digest-trailing-bytes")
	}
	if (errM == nil) != (errD == nil) {
		return pbt.Violf("accept-reject-differs", "memory store: %v; db store: %v", errM, errD)
	}
	if errM != nil {
		// both reject a blob that is valid by construction
		return pbt.Violf("valid-blob-rejected", "both stores reject a spec-conforming blob: memory: %v; db: %v", errM, errD)
	}
	if c.UseClone {
		sr := io.NewSectionReader(bytes.NewReader(blob), 0, int64(len(blob)))
		cm, e1 := rm.Clone(sr)
		cd, e2 := rd.Clone(sr)
		if e1 != nil || e2 != nil {
			return pbt.Violf("clone-failed", "Clone: memory %v, db %v", e1, e2)
		}
		rm, rd = cm, cd
		ev.Class("clone")
	}
	m, d := snapshot(rm), snapshot(rd)
	// independent anchor of the digest (Clone()d DB readers do not carry it: compare the originals' digests)
	want := esgzref.Sha256(tocFile)
	if !c.UseClone {
		if m.digest != want {
			return pbt.Violf("toc-digest-memory", "memory store TOCDigest %s, sha256 of the TOC JSON file is %s (%d bytes, %d trailing whitespace)", m.digest, want, len(tocFile), c.Lib.TrailingWS)
		}
		if d.digest != want {
			return pbt.Violf("toc-digest-db", "db store TOCDigest %s, sha256 of the TOC JSON file is %s", d.digest, want)
		}
	} else {
		m.digest, d.digest = "", ""
	}
	if err := compareViews(m, d); err != nil {
		return err
	}
	if err := compareFiles(c, rm, rd, m, ev); err != nil {
		return err
	}
	hl := false
	for _, e := range c.Archive.Entries {
		if e.Type == "hardlink" {
			hl = true
		}
	}
	ev.ClassIf(hl, "has-hardlink")
	ev.ClassIf(c.Lib.TrailingWS > 0, "trailing-whitespace")
	ev.ClassIf(c.Lib.RepeatDirs > 0, "repeated-dirs")
	ev.ClassIf(c.Lib.ShareStreams > 0, "inner-offset-streams")
	ev.NTIf(c.Source == "thirdparty" || (hl && ev.Has("multi-chunk-file")))
	return nil
}

func TestProp_Differential(t *testing.T) {
	pbt.Run(t, pbt.Options{Prop: "C05", Name: "Differential", Quick: 3000, Thorough: 24000, Current: true, Timeout: 120 * time.Second,
		Rule: "rapid: blob = builder output under generated options, or a third-party TOC written by the independent layout writer (implicit parents, repeated directory entries with other / zeroed attributes, chunkDigest without digest, ./ / ../ spellings, explicit root entry with attrs, " +
			"1-8192 bytes of whitespace after the TOC JSON, innerOffset streams, compact or indented JSON) x {gzip, zstd, external TOC} x Clone x pre-reader; oracle: memory vs db store field by field (TOCDigest + independent sha256 of the TOC file, accept/reject on first use, sorted full walk: names, listing mode, attrs incl. " +
			"numlink (0==1) and xattrs, GetOffset, hardlink partition, ChunkEntryForOffset at every boundary +-1, ReadAt inside chunks, pre-reader chunk digests). non-trivial = third-party TOC, or builder blob with a hardlink and a multi-chunk file",
	}, gen, run)
}

// ---------------------------------------------------------------------------------------
// several layers in one bolt DB, opened / walked / closed concurrently

type MultiCase struct {
	Layers []Case `json:"layers"`
	// Close order and which layers are walked while others close
	CloseOrder []int `json:"close_order"`
}

func genMulti(t *rapid.T) MultiCase {
	var mc MultiCase
	n := rapid.IntRange(2, 5).Draw(t, "layers")
	for i := 0; i < n; i++ {
		c := gen(t)
		c.ReadPlans, c.UseClone, c.PreReader = nil, false, false
		mc.Layers = append(mc.Layers, c)
	}
	mc.CloseOrder = rapid.Permutation(seq(n)).Draw(t, "order")
	return mc
}

func seq(n int) []int {
	s := make([]int, n)
	for i := range s {
		s[i] = i
	}
	return s
}

func runMulti(mc MultiCase, ev *pbt.Ev) error {
	dir, err := os.MkdirTemp("", "c05multi")
	if err != nil {
		return pbt.Inconclusive("%v", err)
	}
	defer os.RemoveAll(dir)
	db, err := stores.NewDB(dir + "/metadata.db")
	if err != nil {
		return pbt.Inconclusive("%v", err)
	}
	defer db.Close()
	type layer struct {
		blob, ext []byte
		single    view
		r         metadata.Reader
	}
	ls := make([]*layer, len(mc.Layers))
	for i, c := range mc.Layers {
		blob, ext, _, err := blobOf(c)
		if err != nil {
			return err
		}
		ls[i] = &layer{blob: blob, ext: ext}
		// single-layer reference walk (own DB)
		r, err := openStore("db", blob, ext) // waits for the background initialisation
		if err != nil {
			return pbt.Violf("valid-blob-rejected", "db store: %v", err)
		}
		ls[i].single = snapshot(r)
		r.Close()
	}
	// open all concurrently in ONE db
	var wg sync.WaitGroup
	errs := make([]error, len(ls))
	for i, l := range ls {
		wg.Add(1)
		go func(i int, l *layer) {
			defer wg.Done()
			sr := io.NewSectionReader(bytes.NewReader(l.blob), 0, int64(len(l.blob)))
			r, err := dbNewReader(db, sr, l.ext)
			if err == nil {
				// wait for the background initialisation: the root's own attributes are only final afterwards
				// (reading them earlier is the recorded finding C05-db-root-attr-before-init, see TestKnown_)
				err = r.ForeachChild(r.RootID(), func(string, uint32, os.FileMode) bool { return false })
			}
			l.r, errs[i] = r, err
		}(i, l)
	}
	wg.Wait()
	for i, e := range errs {
		if e != nil {
			return pbt.Violf("concurrent-open-failed", "layer %d failed to open next to %d others: %v", i, len(ls)-1, e)
		}
	}
	check := func(i int, when string) error {
		v := snapshot(ls[i].r)
		if err := compareViews(ls[i].single, v); err != nil {
			return fmt.Errorf("layer %d %s differs from the same blob opened alone: %w", i, when, err)
		}
		return nil
	}
	for i := range ls {
		if err := check(i, "(all open)"); err != nil {
			return err
		}
	}
	// close in the generated order while the others are walked concurrently
	closed := map[int]bool{}
	for _, ci := range mc.CloseOrder {
		var wg sync.WaitGroup
		werrs := make([]error, len(ls))
		for i := range ls {
			if closed[i] || i == ci {
				continue
			}
			wg.Add(1)
			go func(i int) { defer wg.Done(); werrs[i] = check(i, fmt.Sprintf("(while layer %d closes)", ci)) }(i)
		}
		cerr := ls[ci].r.Close()
		wg.Wait()
		closed[ci] = true
		if cerr != nil {
			return pbt.Violf("close-failed", "closing layer %d: %v", ci, cerr)
		}
		for _, e := range werrs {
			if e != nil {
				return e
			}
		}
		for i := range ls {
			if !closed[i] {
				if err := check(i, fmt.Sprintf("(after layer %d closed)", ci)); err != nil {
					return err
				}
			}
		}
	}
	// nothing left behind
	left := 0
	db.View(func(tx *bolt.Tx) error {
		if b := tx.Bucket([]byte("filesystems")); b != nil {
			b.ForEach(func(k, v []byte) error { left++; return nil })
		}
		return nil
	})
	if left != 0 {
		return pbt.Violf("buckets-left", "%d filesystem bucket(s) remain in the DB after every layer was closed", left)
	}
	ev.Class(fmt.Sprintf("layers-%d", len(ls)))
	ev.NT()
	return nil
}

func TestProp_MultiLayer(t *testing.T) {
	pbt.Run(t, pbt.Options{Prop: "C05", Name: "MultiLayer", Quick: 300, Thorough: 2400, Current: true, Timeout: 120 * time.Second,
		Rule: "rapid: 2-5 generated layers opened concurrently in ONE bolt DB, each walked completely before, while (concurrently) and after every other layer is closed, in a generated close order; oracle: every walk equals the walk of the same blob opened alone; the filesystems bucket is empty at the end. non-trivial = every case (>= 2 layers alive in one DB)",
	}, genMulti, runMulti)
}
