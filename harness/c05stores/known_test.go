package c05stores

import (
	"bytes"
	"fmt"
	"io"
	"os"
	"testing"

	"verifharness/lib/esgzbuild"
	"verifharness/lib/pbt"
	"verifharness/lib/stores"
	"verifharness/lib/tarmodel"
)

func TestKnown_ZstdTOCDigestTrailingBytes(t *testing.T) {
	const id = "C05-zstd-toc-digest-trailing-bytes"
	c := Case{Source: "thirdparty", Opts: esgzbuild.Opts{Compression: "zstd", ChunkSize: 16},
		Archive: tarmodel.Archive{Entries: []tarmodel.Entry{{Name: "f", Type: "reg", Mode: 0o644, Size: 5, Seed: 1, MTime: 1600000000}}},
		Lib:     Liberties{TrailingWS: 5000}}
	blob, ext, tocFile, err := blobOf(c)
	if err != nil {
		t.Fatal(err)
	}
	rm, e1 := openStore("memory", blob, ext)
	rd, e2 := openStore("db", blob, ext)
	if e1 != nil || e2 != nil {
		pbt.Reproduced(id, false, fmt.Sprintf("stores reject: %v / %v", e1, e2))
		return
	}
	defer rm.Close()
	defer rd.Close()
	rep := rm.TOCDigest() != rd.TOCDigest()
	pbt.Reproduced(id, rep, fmt.Sprintf("memory %s db %s file %d bytes", rm.TOCDigest(), rd.TOCDigest(), len(tocFile)))
	if rep && !pbt.Known(id) {
		t.Errorf("finding %s reproduces but is not listed as known", id)
	}
}

func TestKnown_DBRootAttrBeforeInit(t *testing.T) {
	const id = "C05-db-root-attr-before-init"
	var ents []tarmodel.Entry
	for i := 0; i < 400; i++ {
		ents = append(ents, tarmodel.Entry{Name: fmt.Sprintf("d%d/", i), Type: "dir", Mode: 0o755, MTime: 1600000000})
	}
	c := Case{Source: "thirdparty", Opts: esgzbuild.Opts{Compression: "gzip", ChunkSize: 16}, Archive: tarmodel.Archive{Entries: ents}, Lib: Liberties{RootEntry: true}}
	blob, ext, _, err := blobOf(c)
	if err != nil {
		t.Fatal(err)
	}
	db, err := stores.SharedDB()
	if err != nil {
		t.Fatal(err)
	}
	rep := false
	detail := ""
	for try := 0; try < 30 && !rep; try++ {
		r, err := dbNewReader(db, io.NewSectionReader(bytes.NewReader(blob), 0, int64(len(blob))), ext)
		if err != nil {
			t.Fatal(err)
		}
		early, _ := r.GetAttr(r.RootID())
		r.ForeachChild(r.RootID(), func(string, uint32, os.FileMode) bool { return false }) // waits for init
		final, _ := r.GetAttr(r.RootID())
		if d := attrDiff(early, final, true); d != "" {
			rep, detail = true, "root attrs early/final: "+d
		}
		r.Close()
	}
	pbt.Reproduced(id, rep, detail)
	if rep && !pbt.Known(id) {
		t.Errorf("finding %s reproduces but is not listed as known", id)
	}
}
