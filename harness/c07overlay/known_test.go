package c07overlay

import (
	"testing"

	"verifharness/lib/esgzbuild"
	"verifharness/lib/fullstack"
	"verifharness/lib/pbt"
	"verifharness/lib/tarmodel"
)

func TestKnown_WhiteoutOfWhPrefixedName(t *testing.T) {
	const id = "C07-whiteout-of-wh-prefixed-name"
	c := Case{
		Layers:      []tarmodel.Archive{{Entries: []tarmodel.Entry{{Name: "a/", Type: "dir", Mode: 0o755, MTime: 1600000000}, {Name: "a/.wh..wh.f1", Type: "reg", Mode: 0o644, MTime: 1600000000}}}},
		Opts:        esgzbuild.Opts{Compression: "gzip", Level: 1, ChunkSize: 16, Workers: 1},
		Cfg:         fullstack.Config{Store: "memory", FSCache: "memory", HTTPCache: "memory", Opaque: "trusted"},
		LookupFirst: []bool{false},
	}
	ev := &pbt.Ev{}
	err := run(c, ev)
	reproduced := err != nil || ev.Excluded(id) > 0
	detail := "listing and lookup agree"
	if err != nil {
		detail = err.Error()
	} else if reproduced {
		detail = "'.wh.f1' is listed as a whiteout device but cannot be looked up"
	}
	pbt.Reproduced(id, reproduced, detail)
	if err != nil && !pbt.Known(id) {
		t.Errorf("finding %s reproduces but is not listed as known: %v", id, err)
	}
}
