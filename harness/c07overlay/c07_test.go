// C07 — each layer is served as a correct overlayfs lower directory of the OCI layer.
package c07overlay

import (
	"archive/tar"
	"bytes"
	"encoding/json"
	"fmt"
	"path"
	"sort"
	"strings"
	"syscall"
	"testing"
	"time"

	fusefs "github.com/hanwen/go-fuse/v2/fs"
	"github.com/hanwen/go-fuse/v2/fuse"
	digest "github.com/opencontainers/go-digest"
	"pgregory.net/rapid"
	"verifharness/lib/esgzbuild"
	"verifharness/lib/fullstack"
	"verifharness/lib/fusedrive"
	"verifharness/lib/pbt"
	"verifharness/lib/tarmodel"
)

type Case struct {
	Layers []tarmodel.Archive `json:"layers"`
	Opts   esgzbuild.Opts     `json:"opts"`
	Cfg    fullstack.Config   `json:"config"`
	// per visited directory (consumed in walk order, cyclic): true = look every name up before the listing is taken
	LookupFirst []bool `json:"lookup_first"`
	Memo        bool   `json:"memo"`
}

const (
	whPrefix = ".wh."
	opqName  = ".wh..wh..opq"
)

func gen(t *rapid.T) Case {
	var c Case
	c.Opts = esgzbuild.GenOpts(t, []string{"gzip", "gzip", "zstd"})
	c.Opts.Workers = 1
	cs := c.Opts.ChunkSize
	if cs == 0 {
		cs = 64
	}
	n := rapid.IntRange(1, 4).Draw(t, "layers")
	for i := 0; i < n; i++ {
		a := tarmodel.Gen(t, tarmodel.GenOpts{MaxEntries: 10, ChunkSize: cs, Hardlinks: true, Devices: true, Xattrs: rapid.Bool().Draw(t, "xattrs"), Whiteouts: true, Dups: true, Spellings: rapid.Bool().Draw(t, "spell"), RootEntry: true})
		if rapid.IntRange(0, 4).Draw(t, "sublandmark") == 0 {
			a.Entries = append(a.Entries, tarmodel.Entry{Name: rapid.SampledFrom([]string{"a/.prefetch.landmark", "b/.no.prefetch.landmark", "a/stargz.index.json"}).Draw(t, "lm"), Type: "reg", Mode: 0o644, Size: 2, Seed: 4, MTime: 1600000000})
		}
		c.Layers = append(c.Layers, a)
	}
	c.Cfg = fullstack.GenConfig(t)
	c.LookupFirst = rapid.SliceOfN(rapid.Bool(), 1, 8).Draw(t, "lookupfirst")
	c.Memo = rapid.Bool().Draw(t, "memo")
	return c
}

// ---------------------------------------------------------------------------------------
// a small tree type used by both models

type tnode struct {
	typ      byte // tar typeflag; 'W' = overlayfs whiteout (served side only)
	hdr      *tar.Header
	content  []byte
	explicit bool // directory with its own entry in the layer that contributed it last
	opaque   bool // served side: directory carries the opaque xattr
	children map[string]*tnode
	xattrs   map[string][]byte
	attr     fuse.Attr // served side
	link     string
}

func newDir(explicit bool, h *tar.Header) *tnode {
	return &tnode{typ: tar.TypeDir, hdr: h, explicit: explicit, children: map[string]*tnode{}}
}

func (n *tnode) isDir() bool { return n.typ == tar.TypeDir }

func get(root *tnode, p string) *tnode {
	n := root
	if p == "" {
		return n
	}
	for _, part := range strings.Split(p, "/") {
		if n == nil || !n.isDir() {
			return nil
		}
		n = n.children[part]
	}
	return n
}

// ---------------------------------------------------------------------------------------
// model 1: OCI image-spec layer application

func layerEntries(a tarmodel.Archive) ([]tarmodel.RawEntry, error) {
	b, err := a.Tar()
	if err != nil {
		return nil, err
	}
	raw, err := tarmodel.ReadTar(b)
	if err != nil {
		return nil, err
	}
	return tarmodel.Dedup(raw, map[string]bool{".prefetch.landmark": true, ".no.prefetch.landmark": true, "stargz.index.json": true}), nil
}

func ociApply(layers [][]tarmodel.RawEntry) (*tnode, error) {
	root := newDir(false, nil)
	for _, ents := range layers {
		opaque := map[string]bool{}
		wh := map[string]bool{}
		byName := map[string]tarmodel.RawEntry{}
		for _, e := range ents {
			byName[e.Clean] = e
			dir, base := path.Split(e.Clean)
			dir = strings.TrimSuffix(dir, "/")
			if base == opqName {
				opaque[dir] = true
			} else if strings.HasPrefix(base, whPrefix) {
				wh[path.Join(dir, base[len(whPrefix):])] = true
			}
		}
		for d := range opaque {
			if n := get(root, d); n != nil && n.isDir() {
				n.children = map[string]*tnode{}
			}
		}
		for w := range wh {
			dir, base := path.Split(w)
			if n := get(root, strings.TrimSuffix(dir, "/")); n != nil && n.isDir() {
				delete(n.children, base)
			}
		}
		mkparents := func(p string) *tnode {
			n := root
			if p == "" {
				return n
			}
			for _, part := range strings.Split(p, "/") {
				ch := n.children[part]
				if ch == nil || !ch.isDir() {
					ch = newDir(false, nil)
					n.children[part] = ch
				}
				n = ch
			}
			return n
		}
		var resolve func(name string, depth int) (tarmodel.RawEntry, bool)
		resolve = func(name string, depth int) (tarmodel.RawEntry, bool) {
			e, ok := byName[name]
			if !ok || depth > 32 {
				return e, false
			}
			if e.Hdr.Typeflag == tar.TypeLink {
				return resolve(tarmodel.Clean(e.Hdr.Linkname), depth+1)
			}
			return e, true
		}
		for _, e := range ents {
			dir, base := path.Split(e.Clean)
			dir = strings.TrimSuffix(dir, "/")
			if strings.HasPrefix(base, whPrefix) {
				mkparents(dir) // an unpacker creates the parents of a whiteout / marker file before it handles it
				continue
			}
			if e.Clean == "" {
				if e.Hdr.Typeflag == tar.TypeDir {
					root.hdr, root.explicit = e.Hdr, true
				}
				continue
			}
			parent := mkparents(dir)
			src := e
			if e.Hdr.Typeflag == tar.TypeLink {
				t, ok := resolve(e.Clean, 0)
				if !ok {
					return nil, fmt.Errorf("model: dangling hardlink %q", e.Clean)
				}
				src = t
			}
			if src.Hdr.Typeflag == tar.TypeDir {
				if old := parent.children[base]; old != nil && old.isDir() {
					old.hdr, old.explicit = src.Hdr, true
				} else {
					parent.children[base] = newDir(true, src.Hdr)
				}
				continue
			}
			parent.children[base] = &tnode{typ: src.Hdr.Typeflag, hdr: src.Hdr, content: src.Content, link: src.Hdr.Linkname}
		}
		// directories that only exist as implicit parents in THIS layer keep the lower attributes in an OCI apply,
		// while a lazily served layer shows 0755 root: mark them so that their attributes are not compared
		for _, e := range ents {
			for d := path.Dir(e.Clean); d != "." && d != "/" && d != ""; d = path.Dir(d) {
				if _, own := byName[d]; !own {
					if n := get(root, d); n != nil && n.isDir() {
						n.explicit = false
					}
				}
			}
		}
	}
	return root, nil
}

// ---------------------------------------------------------------------------------------
// model 2: overlayfs merge of what the layers serve (index 0 = lowest)

func overlayMerge(served []*tnode) *tnode {
	var merge func(dirs []*tnode) *tnode // dirs: participating directories, top first
	merge = func(dirs []*tnode) *tnode {
		out := newDir(dirs[0].explicit, dirs[0].hdr)
		out.attr, out.xattrs = dirs[0].attr, dirs[0].xattrs
		names := map[string]bool{}
		for _, d := range dirs {
			for k := range d.children {
				names[k] = true
			}
		}
		for name := range names {
			var sub []*tnode
			var leaf *tnode
			for _, d := range dirs {
				ch := d.children[name]
				if ch == nil {
					continue
				}
				if ch.typ == 'W' {
					break
				}
				if !ch.isDir() {
					if len(sub) == 0 {
						leaf = ch
					}
					break
				}
				sub = append(sub, ch)
				if ch.opaque {
					break
				}
			}
			switch {
			case len(sub) > 0:
				out.children[name] = merge(sub)
			case leaf != nil:
				out.children[name] = leaf
			}
		}
		return out
	}
	var dirs []*tnode
	for i := len(served) - 1; i >= 0; i-- {
		dirs = append(dirs, served[i])
	}
	return merge(dirs)
}

// ---------------------------------------------------------------------------------------
// serving one layer and checking the per-layer invariants

type layerCheck struct {
	c        Case
	li       int
	fs       *fusedrive.FS
	ents     []tarmodel.RawEntry
	byName   map[string]tarmodel.RawEntry
	ev       *pbt.Ev
	dirCount int
	inoSeen  map[uint64]string
	base     uint32
}

func (lc *layerCheck) opaqueNames() []string {
	switch lc.c.Cfg.Opaque {
	case "user":
		return []string{"user.overlay.opaque"}
	case "all":
		return []string{"trusted.overlay.opaque", "user.overlay.opaque"}
	}
	return []string{"trusted.overlay.opaque"}
}

func typeOfMode(m uint32) byte {
	switch m & syscall.S_IFMT {
	case syscall.S_IFDIR:
		return tar.TypeDir
	case syscall.S_IFLNK:
		return tar.TypeSymlink
	case syscall.S_IFCHR:
		return tar.TypeChar
	case syscall.S_IFBLK:
		return tar.TypeBlock
	case syscall.S_IFIFO:
		return tar.TypeFifo
	}
	return tar.TypeReg
}

// walk serves directory p (node dn) into a tnode and checks listing/lookup agreement on the way.
func (lc *layerCheck) walk(p string, dn *fusefs.Inode, attr fuse.Attr) (*tnode, error) {
	out := newDir(true, nil)
	out.attr = attr
	lookupFirst := lc.c.LookupFirst[lc.dirCount%len(lc.c.LookupFirst)]
	lc.dirCount++
	// candidate names: what the tar has here, whiteout targets, markers, absent names
	cands := map[string]bool{"no-such-name": true, ".wh.no-such": true, opqName: true, ".prefetch.landmark": true, ".no.prefetch.landmark": true, "stargz.index.json": true}
	hasMarker := false
	for _, e := range lc.ents {
		dir, base := path.Split(e.Clean)
		if strings.TrimSuffix(dir, "/") != p || e.Clean == "" {
			if strings.HasPrefix(e.Clean, p+"/") || p == "" {
				// deeper entries contribute their first component below p (implicit directories)
				rest := strings.TrimPrefix(e.Clean, p)
				rest = strings.TrimPrefix(rest, "/")
				if i := strings.Index(rest, "/"); i > 0 {
					cands[rest[:i]] = true
				}
			}
			continue
		}
		cands[base] = true
		if base == opqName {
			hasMarker = true
		} else if strings.HasPrefix(base, whPrefix) {
			cands[base[len(whPrefix):]] = true
		}
	}
	names := make([]string, 0, len(cands))
	for k := range cands {
		names = append(names, k)
	}
	sort.Strings(names)
	type lres struct {
		node  *fusefs.Inode
		eo    fuse.EntryOut
		errno syscall.Errno
	}
	pre := map[string]lres{}
	if lookupFirst {
		for _, nm := range names {
			n, eo, errno := lc.fs.Lookup(dn, nm)
			pre[nm] = lres{n, eo, errno}
		}
		lc.ev.Class("lookup-before-listing")
	}
	ents, errno := lc.fs.Readdir(dn)
	if errno != 0 {
		return nil, pbt.Violf("readdir-failed", "layer %d: readdir %q errno %d", lc.li, p, errno)
	}
	listed := map[string]fusedrive.Dirent{}
	for _, e := range ents {
		listed[e.Name] = e
		if strings.HasPrefix(e.Name, whPrefix) {
			if pbt.Known("C07-whiteout-of-wh-prefixed-name") && strings.HasPrefix(e.Name, whPrefix) && lc.byNameHas(path.Join(p, whPrefix+e.Name)) {
				lc.ev.Exclude("C07-whiteout-of-wh-prefixed-name")
				delete(listed, e.Name)
				continue
			}
			return nil, pbt.Violf("marker-listed", "layer %d: directory %q lists %q (whiteout / opaque markers must never appear)", lc.li, p, e.Name)
		}
		if p == "" && (e.Name == ".prefetch.landmark" || e.Name == ".no.prefetch.landmark" || e.Name == "stargz.index.json") {
			return nil, pbt.Violf("landmark-listed", "layer %d: the root lists %q", lc.li, e.Name)
		}
		if p == "" && e.Name == ".stargz-snapshotter" {
			return nil, pbt.Violf("state-dir-listed", "layer %d: the hidden state directory is listed", lc.li)
		}
		names = append(names, e.Name)
	}
	sort.Strings(names)
	seen := map[string]bool{}
	for _, nm := range names {
		if seen[nm] {
			continue
		}
		seen[nm] = true
		n, eo, errno := lc.fs.Lookup(dn, nm)
		if lookupFirst {
			if pr := pre[nm]; (pr.node != nil || pr.errno != 0) && (pr.errno == 0) != (errno == 0) {
				return nil, pbt.Violf("lookup-order-dependent", "layer %d: lookup of %q in %q: before the listing errno %d, after it errno %d", lc.li, nm, p, pr.errno, errno)
			} else if pr.errno == 0 && errno == 0 && pr.eo.Attr.Ino != eo.Attr.Ino {
				return nil, pbt.Violf("ino-unstable", "layer %d: %q/%q has inode %d before and %d after the listing", lc.li, p, nm, pr.eo.Attr.Ino, eo.Attr.Ino)
			}
		}
		le, isListed := listed[nm]
		if isListed != (errno == 0) {
			return nil, pbt.Violf("listing-lookup-disagree", "layer %d: %q in directory %q: listed=%v, lookup errno=%d (lookup before listing: %v)", lc.li, nm, p, isListed, errno, lookupFirst)
		}
		if errno != 0 {
			continue
		}
		if le.Ino != eo.Attr.Ino {
			return nil, pbt.Violf("ino-listing-vs-lookup", "layer %d: %q/%q: listing says inode %d, lookup %d", lc.li, p, nm, le.Ino, eo.Attr.Ino)
		}
		if le.Mode&syscall.S_IFMT != eo.Attr.Mode&syscall.S_IFMT {
			return nil, pbt.Violf("type-listing-vs-lookup", "layer %d: %q/%q: listing type %o, lookup type %o", lc.li, p, nm, le.Mode&syscall.S_IFMT, eo.Attr.Mode&syscall.S_IFMT)
		}
		cp := path.Join(p, nm)
		ino := eo.Attr.Ino
		if ino>>32 != uint64(lc.base) || ino&0xffffffff < 3 {
			return nil, pbt.Violf("ino-reserved", "layer %d: %q has inode %#x (base %d; 0-2 are reserved for go-fuse and the state directory)", lc.li, cp, ino, lc.base)
		}
		ch := &tnode{typ: typeOfMode(eo.Attr.Mode), attr: eo.Attr}
		if ch.typ == tar.TypeChar && eo.Attr.Rdev == 0 {
			ch.typ = 'W'
		}
		// inode uniqueness per entity (hardlinked names share)
		key := cp
		if r, ok := lc.byName[cp]; ok && r.Hdr.Typeflag != tar.TypeDir {
			key = "inode:" + lc.inodeKey(cp)
		}
		if old, ok := lc.inoSeen[ino]; ok && old != key {
			return nil, pbt.Violf("ino-shared", "layer %d: %q and %q share inode %d", lc.li, cp, old, ino)
		}
		lc.inoSeen[ino] = key
		switch ch.typ {
		case tar.TypeDir:
			sub, err := lc.walk(cp, n, eo.Attr)
			if err != nil {
				return nil, err
			}
			ch = sub
		case tar.TypeReg:
			h, errno := lc.fs.Open(n)
			if errno != 0 {
				return nil, pbt.Violf("open-failed", "layer %d: open %q errno %d", lc.li, cp, errno)
			}
			buf := make([]byte, eo.Attr.Size+1)
			got, errno := h.Read(buf, 0)
			h.Release()
			if errno != 0 {
				return nil, pbt.Violf("read-failed", "layer %d: read %q errno %d", lc.li, cp, errno)
			}
			ch.content = buf[:got]
		case tar.TypeSymlink:
			ch.link, _ = lc.fs.Readlink(n)
		}
		if ch.typ != 'W' && !ch.isDir() {
			xs, errno := lc.fs.Xattrs(n)
			if errno != 0 {
				return nil, pbt.Violf("xattr-failed", "layer %d: xattrs of %q errno %d", lc.li, cp, errno)
			}
			ch.xattrs = xs
		}
		out.children[nm] = ch
	}
	// opaque xattr: exactly when the marker is there, exactly under the configured names, value "y"
	xs, errno := lc.fs.Xattrs(dn)
	if errno != 0 {
		return nil, pbt.Violf("xattr-failed", "layer %d: xattrs of directory %q errno %d", lc.li, p, errno)
	}
	want := map[string]bool{}
	if hasMarker {
		for _, k := range lc.opaqueNames() {
			want[k] = true
		}
		lc.ev.Class("opaque-dir")
	}
	for _, k := range []string{"trusted.overlay.opaque", "user.overlay.opaque"} {
		v, has := xs[k]
		if has != want[k] || (has && string(v) != "y") {
			return nil, pbt.Violf("opaque-xattr", "layer %d: directory %q (marker present: %v, mode %s): xattr %s present=%v value=%q", lc.li, p, hasMarker, lc.c.Cfg.Opaque, k, has, v)
		}
		if gv, errno := lc.fs.Getxattr(dn, k); (errno == 0) != want[k] || (errno == 0 && string(gv) != "y") {
			return nil, pbt.Violf("opaque-xattr", "layer %d: directory %q: getxattr %s errno %d value %q, marker present %v", lc.li, p, k, errno, gv, hasMarker)
		}
		delete(xs, k)
	}
	out.opaque = hasMarker
	out.xattrs = xs
	return out, nil
}

func (lc *layerCheck) byNameHas(p string) bool { _, ok := lc.byName[p]; return ok }

func (lc *layerCheck) inodeKey(p string) string {
	for i := 0; i < 32; i++ {
		e, ok := lc.byName[p]
		if !ok || e.Hdr.Typeflag != tar.TypeLink {
			return p
		}
		p = tarmodel.Clean(e.Hdr.Linkname)
	}
	return p
}

func excluded(ents []tarmodel.RawEntry) bool {
	dirs := map[string]bool{}
	for _, e := range ents {
		if e.Hdr.Typeflag == tar.TypeDir {
			dirs[e.Clean] = true
		}
		for d := path.Dir(e.Clean); d != "." && d != "/"; d = path.Dir(d) {
			dirs[d] = true // implicit directories count as directories of the layer as well
		}
	}
	for _, e := range ents {
		dir, base := path.Split(e.Clean)
		if strings.HasPrefix(base, whPrefix) && base != opqName {
			if dirs[path.Join(dir, base[len(whPrefix):])] {
				return true
			}
		}
	}
	return false
}

func run(c Case, ev *pbt.Ev) error {
	var layers [][]tarmodel.RawEntry
	for li, a := range c.Layers {
		ents, err := layerEntries(a)
		if err != nil {
			return pbt.Inconclusive("layer %d: %v", li, err)
		}
		// an opaque marker in the root of a layer cannot be expressed either: overlayfs always merges the roots of its
		// lower directories (there is no parent that could stop the descent)
		{
			var keep []tarmodel.RawEntry
			for _, e := range ents {
				if e.Clean == opqName {
					ev.Skipped++
					ev.Class("excluded-root-opaque-marker")
					continue
				}
				keep = append(keep, e)
			}
			ents = keep
		}
		if excluded(ents) {
			// the one shape plain overlayfs lower directories cannot express (statement): drop the whiteout
			var keep []tarmodel.RawEntry
			dirs := map[string]bool{}
			for _, e := range ents {
				if e.Hdr.Typeflag == tar.TypeDir {
					dirs[e.Clean] = true
				}
				for d := path.Dir(e.Clean); d != "." && d != "/"; d = path.Dir(d) {
					dirs[d] = true
				}
			}
			for _, e := range ents {
				dir, base := path.Split(e.Clean)
				if strings.HasPrefix(base, whPrefix) && base != opqName && dirs[path.Join(dir, base[len(whPrefix):])] {
					ev.Skipped++
					continue
				}
				keep = append(keep, e)
			}
			ents = keep
			ev.Class("excluded-whiteout-plus-directory")
		}
		layers = append(layers, ents)
	}
	want, err := ociApply(layers)
	if err != nil {
		return pbt.Inconclusive("%v", err)
	}
	st, err := fullstack.New(c.Cfg)
	if err != nil {
		return pbt.Inconclusive("stack: %v", err)
	}
	defer st.Close()
	var served []*tnode
	for li, ents := range layers {
		// rebuild the tar of the (possibly reduced) layer
		var buf bytes.Buffer
		tw := tar.NewWriter(&buf)
		for _, e := range ents {
			h := *e.Hdr
			tw.WriteHeader(&h)
			tw.Write(e.Content)
		}
		tw.Close()
		res, err := esgzbuild.Build(buf.Bytes(), c.Opts)
		if err != nil {
			return pbt.Inconclusive("builder (C03's business): %v", err)
		}
		desc := st.AddBlob(res.Blob, res.ExternalTOC)
		l, err := st.Resolve(desc)
		if err != nil {
			return pbt.Violf("resolve-failed", "layer %d: %v", li, err)
		}
		defer l.Close()
		if err := l.Verify(digest.Digest(res.TOCDigest)); err != nil {
			return pbt.Violf("verify-failed", "layer %d: %v", li, err)
		}
		base := uint32(li + 1)
		root, err := l.RootNode(base)
		if err != nil {
			return pbt.Violf("rootnode-failed", "layer %d: %v", li, err)
		}
		lc := &layerCheck{c: c, li: li, fs: fusedrive.New(root, c.Memo), ents: ents, byName: map[string]tarmodel.RawEntry{}, ev: ev, inoSeen: map[uint64]string{}, base: base}
		for _, e := range ents {
			lc.byName[e.Clean] = e
		}
		// state directory and stat file: checked before anything was read through this layer and again afterwards
		// (the reported fetched size, hence the length of the JSON, changes in between)
		checkState := func(phase string) error {
			sd, eo, errno := lc.fs.Lookup(lc.fs.Root, ".stargz-snapshotter")
			if errno != 0 {
				return pbt.Violf("state-dir", "layer %d: lookup of the state directory errno %d", li, errno)
			}
			if eo.Attr.Ino != uint64(base)<<32|1 {
				return pbt.Violf("state-dir", "layer %d: state directory inode %#x", li, eo.Attr.Ino)
			}
			sents, errno := lc.fs.Readdir(sd)
			if errno != 0 || len(sents) != 1 {
				return pbt.Violf("state-dir", "layer %d: state directory listing errno %d entries %d", li, errno, len(sents))
			}
			sf, seo, errno := lc.fs.Lookup(sd, sents[0].Name)
			if errno != 0 || seo.Attr.Ino != uint64(base)<<32|2 || sents[0].Name != desc.Digest.String()+".json" {
				return pbt.Violf("state-file", "layer %d: stat file %q errno %d inode %#x", li, sents[0].Name, errno, seo.Attr.Ino)
			}
			h, errno := lc.fs.Open(sf)
			if errno != 0 {
				return pbt.Violf("state-file", "layer %d: open stat file errno %d", li, errno)
			}
			buf2 := make([]byte, 4096)
			n, errno := h.Read(buf2, 0)
			if errno != 0 {
				return pbt.Violf("state-file", "layer %d: read stat file errno %d", li, errno)
			}
			var sj struct {
				Error       string `json:"error"`
				Digest      string `json:"digest"`
				Size        int64  `json:"size"`
				FetchedSize int64  `json:"fetchedSize"`
			}
			if err := json.Unmarshal(buf2[:n], &sj); err != nil {
				return pbt.Violf("state-file", "layer %d: stat file is not JSON: %v: %q", li, err, buf2[:n])
			}
			if sj.Digest != desc.Digest.String() || sj.Size != desc.Size || sj.FetchedSize < 0 || sj.FetchedSize > sj.Size || sj.Error != "" {
				return pbt.Violf("state-file", "layer %d: stat file reports %+v for a %d byte layer %s", li, sj, desc.Size, desc.Digest)
			}
			for _, announced := range []uint64{seo.Attr.Size, func() uint64 { a, _ := lc.fs.Getattr(sf); return a.Size }()} {
				if announced != uint64(n) {
					return pbt.Violf("state-file", "layer %d (%s): the stat file announces %d bytes (lookup %d) but its content is %d bytes long: %q", li, phase, announced, seo.Attr.Size, n, buf2[:n])
				}
			}
			return nil
		}
		if err := checkState("before reading"); err != nil {
			return err
		}
		rootAttr, _ := lc.fs.Getattr(lc.fs.Root)
		tree, err := lc.walk("", lc.fs.Root, rootAttr)
		if err != nil {
			return err
		}
		if r, ok := lc.byName[""]; !ok || r.Hdr.Typeflag != tar.TypeDir {
			tree.explicit = false
		}
		served = append(served, tree)
		ev.Steps += len(ents) + 1
		// read something so that the fetched size moves, then look at the stat file again
		for _, e := range ents {
			if e.Hdr.Typeflag == tar.TypeReg && len(e.Content) > 0 && !strings.HasPrefix(path.Base(e.Clean), ".wh.") {
				if fn, _, errno := lc.fs.Walk(e.Clean); errno == 0 {
					if h, errno := lc.fs.Open(fn); errno == 0 {
						h.Read(make([]byte, len(e.Content)), 0)
						h.Release()
					}
				}
				break
			}
		}
		if err := checkState("after reading"); err != nil {
			return err
		}
	}
	got := overlayMerge(served)
	if err := compare("", want, got); err != nil {
		return err
	}
	hides := false
	for li := 1; li < len(layers); li++ {
		for _, e := range layers[li] {
			if strings.HasPrefix(path.Base(e.Clean), whPrefix) {
				hides = true
			}
		}
	}
	ev.ClassIf(hides, "upper-layer-has-whiteout-or-opaque")
	ev.Class(fmt.Sprintf("layers-%d", len(layers)))
	ev.Class("opaque-mode-" + c.Cfg.Opaque)
	ev.Class("store-" + c.Cfg.Store)
	ev.NTIf((len(layers) >= 2 && hides) || ev.Has("lookup-before-listing"))
	return nil
}

func compare(p string, want, got *tnode) error {
	var wn, gn []string
	for k := range want.children {
		wn = append(wn, k)
	}
	for k := range got.children {
		gn = append(gn, k)
	}
	sort.Strings(wn)
	sort.Strings(gn)
	if strings.Join(wn, "\x00") != strings.Join(gn, "\x00") {
		return pbt.Violf("merged-tree-names", "directory %q: applying the layer tars gives %q, overlay-merging the served layers gives %q", p, wn, gn)
	}
	for _, k := range wn {
		w, g := want.children[k], got.children[k]
		cp := path.Join(p, k)
		if w.typ != g.typ {
			return pbt.Violf("merged-tree-type", "%q: tar application gives type %q, served layers give %q", cp, w.typ, g.typ)
		}
		if w.isDir() {
			if w.explicit {
				if err := cmpAttr(cp, w.hdr, g); err != nil {
					return err
				}
			}
			if err := compare(cp, w, g); err != nil {
				return err
			}
			continue
		}
		if err := cmpAttr(cp, w.hdr, g); err != nil {
			return err
		}
		if w.typ == tar.TypeReg && !bytes.Equal(w.content, g.content) {
			return pbt.Violf("merged-tree-content", "%q: content differs (%d vs %d bytes)", cp, len(w.content), len(g.content))
		}
		if w.typ == tar.TypeSymlink && w.link != g.link {
			return pbt.Violf("merged-tree-symlink", "%q: target %q vs %q", cp, w.link, g.link)
		}
	}
	return nil
}

func cmpAttr(p string, h *tar.Header, g *tnode) error {
	if h == nil {
		return nil
	}
	a := g.attr
	if a.Mode&0o7777 != uint32(h.Mode&0o777)|suidBits(h.Mode) || a.Uid != uint32(h.Uid) || a.Gid != uint32(h.Gid) {
		return pbt.Violf("merged-tree-attr", "%q: served mode %o owner %d:%d, the layer tar says mode %o owner %d:%d", p, a.Mode&0o7777, a.Uid, a.Gid, h.Mode, h.Uid, h.Gid)
	}
	want := map[string][]byte{}
	for k, v := range h.PAXRecords {
		if strings.HasPrefix(k, "SCHILY.xattr.") {
			want[strings.TrimPrefix(k, "SCHILY.xattr.")] = []byte(v)
		}
	}
	if len(want) != len(g.xattrs) {
		return pbt.Violf("merged-tree-xattr", "%q: served xattrs %d, tar %d", p, len(g.xattrs), len(want))
	}
	for k, v := range want {
		if gv, ok := g.xattrs[k]; !ok || !bytes.Equal(gv, v) {
			return pbt.Violf("merged-tree-xattr", "%q: xattr %q served %q (present %v), tar %q", p, k, gv, ok, v)
		}
	}
	return nil
}

func suidBits(m int64) uint32 {
	var r uint32
	if m&0o4000 != 0 {
		r |= syscall.S_ISUID
	}
	if m&0o2000 != 0 {
		r |= syscall.S_ISGID
	}
	if m&0o1000 != 0 {
		r |= syscall.S_ISVTX
	}
	return r
}

func TestProp_Overlay(t *testing.T) {
	pbt.Run(t, pbt.Options{Prop: "C07", Name: "Overlay", Quick: 2000, Thorough: 20000, Current: true, Timeout: 120 * time.Second,
		Rule: "rapid: stack of 1-4 layer tars over one small name space (additions, replacements file<->dir, .wh.X for existing and absent X, .wh.X next to a real X, opaque markers at any depth, names beginning with .wh., landmark / TOC names in sub-directories, root entry) x opaque mode {trusted, user, all} x store x per-directory order (look every name up before or after the listing is memoised) x child memoisation; " +
			"a layer with .wh.X and a directory X is reduced (whiteout dropped, counted). oracle: (1) OCI application of the tars == overlayfs merge of what the layers serve (names, types, content, symlink targets, attrs of non-directories and of directories with an entry in the contributing layer); " +
			"(2) per layer: listed <=> lookup succeeds (tar names, whiteout targets, markers, landmarks, absent names), independent of the order; no marker/landmark/TOC/state-dir listed; opaque xattr exactly on marked directories under exactly the configured names with value y; inode numbers unique per entity, equal in listing and lookup, stable, never 0-2; state file JSON with digest, size, fetchedSize in [0,size]. " +
			"non-trivial = >= 2 layers with a whiteout/opaque in an upper layer, or lookups before the listing",
	}, gen, run)
}
