// C08 — snapshotter keeps snapshot metadata, directories and FUSE mounts in step.
package c08snap

import (
	"context"
	"fmt"
	"os"
	"path/filepath"
	"sort"
	"strings"
	"testing"
	"time"

	"github.com/containerd/containerd/v2/core/mount"
	"github.com/containerd/containerd/v2/core/snapshots"
	"github.com/containerd/errdefs"
	"github.com/containerd/stargz-snapshotter/snapshot"
	"pgregory.net/rapid"
	"verifharness/lib/pbt"
	"verifharness/lib/recfs"
)

const (
	targetLabel = "containerd.io/snapshot.ref"
	remoteLabel = "containerd.io/snapshot/remote"
)

type Step struct {
	Op          string `json:"op"` // prepare view commit mounts remove cleanup update reopen
	Key         int    `json:"key"`
	Parent      int    `json:"parent"` // index into names; -1 = none
	Target      int    `json:"target"` // -1 = no target label
	MountFail   bool   `json:"mount_fail,omitempty"`
	CheckFail   int    `json:"check_fail,omitempty"`      // bitmask over names: Check of their mountpoint fails during this step
	Overlap     bool   `json:"overlap_cleanup,omitempty"` // prepare/view: another caller's Cleanup arrives while the snapshot is being created
	CheckSlow   int    `json:"check_slow,omitempty"`      // bitmask over names: Check of their mountpoint answers late (25 ms)
	UnmountFail bool   `json:"unmount_fail,omitempty"`
}

type Case struct {
	Async bool   `json:"async_remove"`
	Steps []Step `json:"steps"`
}

// callers (containerd's unpacker, CRI) use transient keys ("extract-<n> <chainID>") for active snapshots and chain ids for
// committed ones; the two never coincide.  Names 0-3 are used as keys, 4-11 as committed names / targets (4-7 mostly, so that collisions stay frequent); parents may be any.
var names = []string{"k0", "k1", "k2", "k3", "c0", "c1", "c2", "c3", "c4", "c5", "c6", "c7"}

// gen keeps an approximate symbolic state (which names are probably committed / active) so that most calls are
// plausible: parents that exist, commits of active keys, removals of existing snapshots.  It is only a generator bias;
// the oracle never relies on it.
func gen(t *rapid.T) Case {
	c := Case{Async: rapid.Bool().Draw(t, "async")}
	committed := map[int]bool{}
	active := map[int]bool{}
	pick := func(m map[int]bool, lo, hi int, label string) int {
		var ks []int
		for k := range m {
			ks = append(ks, k)
		}
		if len(ks) == 0 || rapid.IntRange(0, 7).Draw(t, label+"any") == 0 {
			return rapid.IntRange(lo, hi).Draw(t, label)
		}
		sort.Ints(ks)
		return rapid.SampledFrom(ks).Draw(t, label+"known")
	}
	cname := func(label string) int {
		if rapid.IntRange(0, 3).Draw(t, label+"hi") == 0 {
			return rapid.IntRange(8, 11).Draw(t, label)
		}
		return rapid.IntRange(4, 7).Draw(t, label)
	}
	if rapid.IntRange(0, 5).Draw(t, "deepchain") == 0 {
		// an image with many layers: every layer of the chain is checked, the checks run in parallel and answer late
		d := rapid.IntRange(5, 8).Draw(t, "depth")
		for j := 0; j < d; j++ {
			c.Steps = append(c.Steps, Step{Op: "prepare", Key: 0, Parent: 3 + j, Target: 4 + j})
			committed[4+j] = true
		}
		c.Steps[0].Parent = -1
		fail := rapid.IntRange(0, d-1).Draw(t, "failing")
		slow := rapid.IntRange(0, 255).Draw(t, "slowmask") << 4
		if rapid.Bool().Draw(t, "slowabove") {
			slow = 0
			for j := fail + 1; j < d; j++ {
				slow |= 1 << uint(4+j)
			}
		}
		top := Step{Op: rapid.SampledFrom([]string{"view", "prepare", "mounts"}).Draw(t, "topop"), Key: 1, Parent: 3 + d, Target: -1, CheckFail: 1 << uint(4+fail), CheckSlow: slow}
		if top.Op == "mounts" {
			c.Steps = append(c.Steps, Step{Op: "prepare", Key: 1, Parent: 3 + d, Target: -1})
			active[1] = true
		}
		if rapid.IntRange(0, 3).Draw(t, "nofail") == 0 {
			top.CheckFail = 0
		}
		c.Steps = append(c.Steps, top)
		active[1] = true
	}
	n := rapid.IntRange(3, 30).Draw(t, "nsteps")
	for i := 0; i < n; i++ {
		s := Step{Op: rapid.SampledFrom([]string{"prepare", "prepare", "prepare", "prepare", "view", "commit", "mounts", "mounts", "remove", "remove", "cleanup", "update", "reopen"}).Draw(t, "op"), Parent: -1, Target: -1}
		s.MountFail = rapid.IntRange(0, 5).Draw(t, "mountfail") == 0
		if rapid.IntRange(0, 3).Draw(t, "checkfail") == 0 {
			s.CheckFail = rapid.IntRange(1, 4095).Draw(t, "checkmask")
		}
		if rapid.IntRange(0, 5).Draw(t, "checkslow") == 0 {
			s.CheckSlow = rapid.IntRange(1, 4095).Draw(t, "slowmask")
		}
		s.UnmountFail = rapid.IntRange(0, 5).Draw(t, "unmountfail") == 0
		switch s.Op {
		case "prepare", "view":
			s.Overlap = rapid.IntRange(0, 5).Draw(t, "overlap") == 0
			s.Key = rapid.IntRange(0, 3).Draw(t, "key")
			if rapid.IntRange(0, 3).Draw(t, "hasparent") > 0 {
				s.Parent = pick(committed, 4, 11, "parent")
			}
			if s.Op == "prepare" && rapid.IntRange(0, 3).Draw(t, "hastarget") > 0 {
				s.Target = cname("target")
				if !s.MountFail && !active[s.Key] && (s.Parent < 0 || committed[s.Parent]) {
					committed[s.Target] = true
				} else if !active[s.Key] {
					active[s.Key] = true
				}
			} else {
				active[s.Key] = true
			}
		case "commit":
			s.Key = pick(active, 0, 3, "ckey")
			s.Target = cname("name")
			if active[s.Key] && !committed[s.Target] {
				delete(active, s.Key)
				committed[s.Target] = true
			}
		case "mounts", "update":
			if rapid.Bool().Draw(t, "onactive") {
				s.Key = pick(active, 0, 3, "mkey")
			} else {
				s.Key = pick(committed, 4, 11, "mname")
			}
		case "remove":
			if rapid.IntRange(0, 2).Draw(t, "rmactive") == 0 {
				s.Key = pick(active, 0, 3, "rkey")
				delete(active, s.Key)
			} else {
				s.Key = pick(committed, 4, 11, "rname")
				delete(committed, s.Key)
			}
		}
		c.Steps = append(c.Steps, s)
	}
	return c
}

type world struct {
	root   string
	fs     *recfs.FS
	sn     snapshots.Snapshotter
	ids    map[string]string // snapshot name -> directory id (learned from mounts / mount events)
	script Step
	ev     *pbt.Ev
}

func (w *world) walk() (map[string]snapshots.Info, error) {
	out := map[string]snapshots.Info{}
	err := w.sn.Walk(context.Background(), func(ctx context.Context, info snapshots.Info) error {
		out[info.Name] = info
		return nil
	})
	if errdefs.IsNotFound(err) {
		err = nil // an empty metadata store has no bucket yet
	}
	return out, err
}

func idOfPath(p string) string {
	// .../snapshots/<id>/fs
	parts := strings.Split(p, "/")
	for i := range parts {
		if parts[i] == "snapshots" && i+1 < len(parts) {
			return parts[i+1]
		}
	}
	return ""
}

func (w *world) nameOfMP(mp string) string {
	id := idOfPath(mp)
	for n, i := range w.ids {
		if i == id {
			return n
		}
	}
	return ""
}

func (w *world) open(c Case) error {
	opts := []snapshot.Opt{}
	if c.Async {
		opts = append(opts, snapshot.AsynchronousRemove)
	}
	sn, err := snapshot.NewSnapshotter(context.Background(), w.root, w.fs, opts...)
	if err != nil {
		return err
	}
	w.sn = sn
	return nil
}

// learn ids from a mount list returned for snapshot `name` (upperdir / bind source of an active snapshot).
func (w *world) learn(name string, kind snapshots.Kind, ms []mount.Mount) {
	for _, m := range ms {
		if m.Type == "bind" && kind == snapshots.KindActive {
			w.ids[name] = idOfPath(m.Source)
		}
		for _, o := range m.Options {
			if strings.HasPrefix(o, "upperdir=") {
				w.ids[name] = idOfPath(strings.TrimPrefix(o, "upperdir="))
			}
		}
	}
}

// checkMounts verifies a successfully returned mount list for the snapshot whose parent chain starts at `first`.
func (w *world) checkMounts(step int, what string, chainFrom string, infos map[string]snapshots.Info, ms []mount.Mount, selfKind snapshots.Kind, selfName string) error {
	// availability: no remote snapshot in the checked chain may have a failing Check in this step
	var chain []string
	for n := chainFrom; n != ""; n = infos[n].Parent {
		if _, ok := infos[n]; !ok {
			break
		}
		chain = append(chain, n)
	}
	for _, n := range chain {
		if _, remote := infos[n].Labels[remoteLabel]; remote {
			for i, nm := range names {
				if nm == n && w.script.CheckFail&(1<<uint(i)) != 0 && w.ids[n] != "" {
					return pbt.Violf("mounts-for-unavailable-chain", "step %d: %s returned mounts although the remote snapshot %q in its chain fails its connectivity check", step, what, n)
				}
			}
		}
	}
	// lower directories: nearest parent first
	parentChain := chain
	if chainFrom == selfName && len(chain) > 0 {
		parentChain = chain[1:]
	}
	for _, m := range ms {
		for _, o := range m.Options {
			if strings.HasPrefix(o, "lowerdir=") {
				dirs := strings.Split(strings.TrimPrefix(o, "lowerdir="), ":")
				if len(dirs) != len(parentChain) {
					return pbt.Violf("lowerdir-count", "step %d: %s lists %d lower directories, the parent chain %v has %d", step, what, len(dirs), parentChain, len(parentChain))
				}
				for i, d := range dirs {
					if id := w.ids[parentChain[i]]; id != "" && idOfPath(d) != id {
						return pbt.Violf("lowerdir-order", "step %d: %s: lower directory %d is snapshot directory %s, parent chain (nearest first) %v expects %s there", step, what, i, idOfPath(d), parentChain, id)
					}
				}
				w.ev.ClassIf(len(dirs) >= 2, "multi-lower")
			}
		}
	}
	return nil
}

func run(c Case, ev *pbt.Ev) error {
	root, err := os.MkdirTemp("", "c08")
	if err != nil {
		return pbt.Inconclusive("%v", err)
	}
	defer os.RemoveAll(root)
	// the snapshotter root and, beside it, the empty directory that stands in for a mounted layer
	bindSrc := filepath.Join(root, "layer-content")
	os.MkdirAll(bindSrc, 0o755)
	root = filepath.Join(root, "root")
	w := &world{root: root, fs: recfs.New("fs"), ids: map[string]string{}, ev: ev}
	w.fs.BindSrc = bindSrc
	defer func() { w.fs.UnmountAll() }()
	w.fs.Decide = func(op, mp string, seq int) bool {
		switch op {
		case "mount":
			return w.script.MountFail
		case "unmount":
			return w.script.UnmountFail
		case "check":
			n := w.nameOfMP(mp)
			for i, nm := range names {
				if nm == n && w.script.CheckFail&(1<<uint(i)) != 0 {
					return true
				}
			}
		}
		return false
	}
	w.fs.Slow = func(op, mp string) time.Duration {
		n := w.nameOfMP(mp)
		for i, nm := range names {
			if nm == n && w.script.CheckSlow&(1<<uint(i)) != 0 {
				return 25 * time.Millisecond
			}
		}
		return 0
	}
	if err := w.open(c); err != nil {
		return pbt.Violf("open-failed", "NewSnapshotter on an empty root: %v", err)
	}
	defer func() {
		if w.sn != nil {
			w.sn.Close()
		}
	}()
	afterCleanup := func(i int, s Step) error {
		after, _ := w.walk()
		ents, _ := os.ReadDir(filepath.Join(root, "snapshots"))
		var dirs []string
		for _, e := range ents {
			dirs = append(dirs, e.Name())
			if strings.HasPrefix(e.Name(), "new-") {
				return pbt.Violf("cleanup-leftover", "step %d: after Cleanup the temporary directory %s is still there", i, e.Name())
			}
		}
		if len(dirs) != len(after) && !s.UnmountFail {
			return pbt.Violf("cleanup-dirs", "step %d: after Cleanup there are %d snapshot directories %v for %d live snapshots", i, len(dirs), dirs, len(after))
		}
		for n := range after {
			if id := w.ids[n]; id != "" {
				if _, err := os.Stat(filepath.Join(root, "snapshots", id)); err != nil {
					return pbt.Violf("cleanup-removed-live", "step %d: after Cleanup the directory %s of live snapshot %q is gone", i, id, n)
				}
			}
		}
		return nil
	}
	// overlap: options are applied while the snapshot is being created (inside the metadata transaction, after its
	// directory was made); the option starts another caller's Cleanup and gives it 40 ms to do whatever it can do
	// at that moment.  The harness owns this schedule point; the calls themselves are the public API.
	var cleanupDone chan error
	overlapOpt := func(info *snapshots.Info) error {
		if cl, ok := w.sn.(snapshots.Cleaner); ok && cleanupDone == nil {
			ch := make(chan error, 1)
			cleanupDone = ch
			go func() { ch <- cl.Cleanup(context.Background()) }()
			select {
			case err := <-ch:
				ch <- err
			case <-time.After(40 * time.Millisecond):
			}
		}
		return nil
	}
	joinCleanup := func(i int, s Step, what string) error {
		if cleanupDone == nil {
			return nil
		}
		ch := cleanupDone
		cleanupDone = nil
		select {
		case err := <-ch:
			if err != nil && !errdefs.IsNotFound(err) {
				return pbt.Violf("cleanup-failed", "step %d: Cleanup racing with %s: %v", i, what, err)
			}
		case <-time.After(20 * time.Second):
			return pbt.Inconclusive("step %d: Cleanup racing with %s did not return", i, what)
		}
		ev.Class("cleanup-overlapping-create")
		return nil
	}
	ctx := context.Background()
	remotePrepared, backendFailure, removedRemote := false, false, false
	for i, s := range c.Steps {
		w.script = s
		before, err := w.walk()
		if err != nil {
			return pbt.Violf("walk-failed", "step %d: Walk: %v", i, err)
		}
		evBefore := len(w.fs.Events())
		liveBefore := w.fs.Live()
		if s.Parent >= 0 {
			depth := 0
			for n := names[s.Parent]; n != ""; n = before[n].Parent {
				if _, ok := before[n]; !ok {
					break
				}
				depth++
			}
			ev.ClassIf(depth >= 5, "chain-of-5-or-more-layers")
			ev.ClassIf(depth >= 5 && s.CheckSlow != 0 && s.CheckFail != 0, "deep-chain-slow-and-failing-checks")
		}
		ev.ClassIf(s.CheckSlow != 0, "slow-checks")
		key := names[s.Key]
		parent := ""
		if s.Parent >= 0 {
			parent = names[s.Parent]
		}
		closing := false
		switch s.Op {
		case "prepare":
			var opts []snapshots.Opt
			target := ""
			if s.Target >= 0 {
				target = names[s.Target]
				opts = append(opts, snapshots.WithLabels(map[string]string{targetLabel: target}))
			}
			if s.Overlap {
				opts = append(opts, overlapOpt)
			}
			ms, perr := w.sn.Prepare(ctx, key, parent, opts...)
			if err := joinCleanup(i, s, "Prepare"); err != nil {
				return err
			}
			evs := w.fs.Events()[evBefore:]
			var mountOK *recfs.Event
			for k := range evs {
				if evs[k].Op == "mount" && !evs[k].Err {
					mountOK = &evs[k]
				}
				if evs[k].Err {
					backendFailure = true
				}
			}
			after, _ := w.walk()
			if perr == nil {
				info, ok := after[key]
				if !ok || info.Kind != snapshots.KindActive {
					return pbt.Violf("prepare-result", "step %d: Prepare(%q) returned mounts but Stat says %+v (exists %v)", i, key, info.Kind, ok)
				}
				if _, remote := info.Labels[remoteLabel]; remote {
					return pbt.Violf("fallback-marked-remote", "step %d: Prepare(%q, target %q) fell back to a writable snapshot that is marked remote", i, key, target)
				}
				if mountOK != nil {
					return pbt.Violf("mounted-but-fell-back", "step %d: Prepare(%q, target %q): the backend mount at %s succeeded, yet ordinary mounts were returned", i, key, target, mountOK.MP)
				}
				w.learn(key, snapshots.KindActive, ms)
				if err := w.checkMounts(i, fmt.Sprintf("Prepare(%q,%q)", key, parent), parent, after, ms, snapshots.KindActive, key); err != nil {
					return err
				}
			} else if errdefs.IsAlreadyExists(perr) && target != "" && mountOK != nil {
				// the remote path: target must now be a committed snapshot
				info, ok := after[target]
				if !ok || info.Kind != snapshots.KindCommitted {
					return pbt.Violf("target-not-committed", "step %d: Prepare(%q, target %q) reported that the target exists, but Stat(target): exists=%v kind=%v", i, key, target, ok, info.Kind)
				}
				if _, existed := before[target]; !existed {
					if _, remote := info.Labels[remoteLabel]; !remote {
						return pbt.Violf("target-not-remote", "step %d: this Prepare created target %q from a backend mount but it is not marked remote", i, target)
					}
					w.ids[target] = idOfPath(mountOK.MP)
					n := 0
					for mp := range w.fs.Live() {
						if idOfPath(mp) == w.ids[target] {
							n++
							if mp != filepath.Join(root, "snapshots", w.ids[target], "fs") {
								return pbt.Violf("mount-elsewhere", "step %d: remote snapshot %q is mounted at %s", i, target, mp)
							}
						}
					}
					if n != 1 {
						return pbt.Violf("remote-mount-count", "step %d: remote snapshot %q has %d live backend mounts on its directory (want 1)", i, target, n)
					}
					remotePrepared = true
					ev.Class("remote-prepared")
				} else {
					// target existed before: the key keeps existing as an active snapshot holding the mount
					w.ids[key] = idOfPath(mountOK.MP)
					ev.Class("remote-prepare-target-existed")
				}
			} else if errdefs.IsAlreadyExists(perr) && target != "" {
				if _, ok := after[target]; !ok {
					if _, keyExisted := before[key]; !keyExisted {
						return pbt.Violf("already-exists-without-target", "step %d: Prepare(%q, target %q) says already exists, but neither did the key exist before nor does the target exist now", i, key, target)
					}
				}
			} else if errdefs.IsUnavailable(perr) {
				ev.Class("unavailable")
			} else if perr != nil && !errdefs.IsAlreadyExists(perr) && !errdefs.IsNotFound(perr) && !errdefs.IsInvalidArgument(perr) && !errdefs.IsFailedPrecondition(perr) {
				if _, keyExisted := before[key]; !keyExisted {
					return pbt.Violf("prepare-failed", "step %d: Prepare(%q, parent %q, target %q) failed with an error that none of its inputs explains: %v", i, key, parent, target, perr)
				}
			}
			if s.Overlap {
				if err := afterCleanup(i, s); err != nil {
					return err
				}
			}
		case "view":
			var vopts []snapshots.Opt
			if s.Overlap {
				vopts = append(vopts, overlapOpt)
			}
			ms, verr := w.sn.View(ctx, key, parent, vopts...)
			if err := joinCleanup(i, s, "View"); err != nil {
				return err
			}
			after, _ := w.walk()
			if verr == nil {
				delete(w.ids, key) // a view does not reveal its own directory
				if err := w.checkMounts(i, fmt.Sprintf("View(%q,%q)", key, parent), parent, after, ms, snapshots.KindView, key); err != nil {
					return err
				}
			}
		case "commit":
			w.sn.Commit(ctx, names[s.Target], key)
			if after, _ := w.walk(); after != nil {
				if _, was := before[key]; was {
					if _, still := after[key]; !still {
						if id, ok := w.ids[key]; ok {
							w.ids[names[s.Target]] = id
							delete(w.ids, key)
						}
					}
				}
			}
		case "mounts":
			ms, merr := w.sn.Mounts(ctx, key)
			if merr == nil {
				info := before[key]
				w.learn(key, info.Kind, ms)
				if err := w.checkMounts(i, fmt.Sprintf("Mounts(%q)", key), key, before, ms, info.Kind, key); err != nil {
					return err
				}
			} else if errdefs.IsUnavailable(merr) {
				ev.Class("unavailable")
			}
		case "remove":
			info, existed := before[key]
			rerr := w.sn.Remove(ctx, key)
			if rerr == nil && existed {
				if _, remote := info.Labels[remoteLabel]; remote {
					removedRemote = true
				}
			}
		case "cleanup":
			if cl, ok := w.sn.(snapshots.Cleaner); ok {
				if err := cl.Cleanup(ctx); err != nil && !errdefs.IsNotFound(err) {
					return pbt.Violf("cleanup-failed", "step %d: Cleanup: %v", i, err)
				}
				if err := afterCleanup(i, s); err != nil {
					return err
				}
				ev.Class("cleanup")
			}
		case "update":
			if info, ok := before[key]; ok {
				if info.Labels == nil {
					info.Labels = map[string]string{}
				}
				info.Labels["containerd.io/snapshot/verif"] = fmt.Sprint(i)
				w.sn.Update(ctx, info, "labels.containerd.io/snapshot/verif")
			}
		case "reopen":
			closing = true
			w.sn.Close()
			w.sn = nil
			w.fs.UnmountAll()
			w.fs = recfs.New("fs-after-reopen")
			w.fs.BindSrc = bindSrc
			dec := w.fs.Decide
			_ = dec
			w.fs.Decide = func(op, mp string, seq int) bool { return false } // the restore itself is C09's business
			if err := w.open(c); err != nil {
				return pbt.Violf("reopen-failed", "step %d: NewSnapshotter on the closed root failed: %v", i, err)
			}
			w.fs.Decide = func(op, mp string, seq int) bool {
				switch op {
				case "mount":
					return w.script.MountFail
				case "unmount":
					return w.script.UnmountFail
				case "check":
					n := w.nameOfMP(mp)
					for k, nm := range names {
						if nm == n && w.script.CheckFail&(1<<uint(k)) != 0 {
							return true
						}
					}
				}
				return false
			}
			ev.Class("reopen")
			liveBefore = map[string]map[string]string{}
			evBefore = 0
		}
		after, err := w.walk()
		if err != nil {
			return pbt.Violf("walk-failed", "step %d: Walk after %s: %v", i, s.Op, err)
		}
		// forget the directory ids of snapshots that no longer exist
		for n := range w.ids {
			if _, ok := after[n]; !ok {
				delete(w.ids, n)
			}
		}
		// Walk and Stat agree
		for n, info := range after {
			st, err := w.sn.Stat(ctx, n)
			if err != nil || st.Kind != info.Kind || st.Parent != info.Parent {
				return pbt.Violf("walk-stat-disagree", "step %d: Walk lists %q as %v (parent %q), Stat says %v (parent %q) err %v", i, n, info.Kind, info.Parent, st.Kind, st.Parent, err)
			}
		}
		// unmount only after the snapshot is gone (or while closing), and before the directory disappears
		if !closing {
			for _, e := range w.fs.Events()[evBefore:] {
				if e.Op != "unmount" {
					continue
				}
				if e.Err {
					backendFailure = true
				}
				if _, wasLive := liveBefore[e.MP]; !wasLive {
					continue
				}
				if !e.DirExisted {
					return pbt.Violf("unmount-after-delete", "step %d: Unmount(%s) arrived after the directory had been deleted", i, e.MP)
				}
				if owner := w.nameOfMP(e.MP); owner != "" {
					if _, alive := after[owner]; alive {
						return pbt.Violf("unmounted-live-snapshot", "step %d (%s): backend mount of %q at %s was unmounted although the snapshot still exists", i, s.Op, owner, e.MP)
					}
				}
			}
		}
		for mp := range w.fs.Live() {
			if _, err := os.Stat(mp); err != nil {
				return pbt.Violf("mounted-dir-deleted", "step %d (%s): %s has a live backend mount but the directory is gone", i, s.Op, mp)
			}
		}
		// every committed remote snapshot created in this process run has its mount (unless an Unmount was attempted on removal)
		for n, info := range after {
			if _, remote := info.Labels[remoteLabel]; remote && w.ids[n] != "" {
				if _, ok := w.fs.Live()[filepath.Join(root, "snapshots", w.ids[n], "fs")]; !ok {
					return pbt.Violf("remote-without-mount", "step %d (%s): remote snapshot %q exists but has no live backend mount", i, s.Op, n)
				}
			}
		}
		ev.Steps++
	}
	ev.Class(map[bool]string{true: "async-remove", false: "sync-remove"}[c.Async])
	ev.ClassIf(backendFailure, "backend-failure")
	ev.ClassIf(removedRemote, "removed-remote")
	ev.NTIf(remotePrepared && backendFailure && removedRemote)
	return nil
}

func TestProp_Snapshotter(t *testing.T) {
	pbt.Run(t, pbt.Options{Prop: "C08", Name: "Snapshotter", Quick: 2500, Thorough: 35000, Current: true, Timeout: 120 * time.Second,
		Rule: "rapid: 1-25 snapshotter calls over 8 names: Prepare(key,parent[,target label]) / View / Commit / Mounts / Remove / Cleanup / Update / Close+reopen, sync or async removal, and per call a script for the backend (Mount fails, Check fails for a set of snapshots, Unmount fails) on a recording FileSystem; " +
			"oracle: history invariants from the statement (target reported as existing => committed, and remote with exactly one live mount on its own fs directory if this call created it; fallback => active, not remote, no mount left; no mounts returned for a chain with a remote snapshot whose check fails; lowerdir = parent chain nearest first; " +
			"an existing backend mount is unmounted only after its snapshot left Walk and while its directory exists; no directory with a live mount disappears; every remote snapshot keeps its mount; after Cleanup directories == live snapshots and no new-* leftovers; Walk == Stat). " +
			"non-trivial = history with a successful remote prepare, an injected backend failure and the removal of a remote snapshot",
	}, gen, run)
}
