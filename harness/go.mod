module verifharness

go 1.26.8

require (
	github.com/containerd/stargz-snapshotter v0.18.2
	github.com/containerd/stargz-snapshotter/cmd v0.0.0
	github.com/containerd/stargz-snapshotter/estargz v0.18.2
	github.com/klauspost/compress v1.18.6
	pgregory.net/rapid v1.3.0
)

require (
	github.com/golang/groupcache v0.0.0-20241129210726-2c02b8208cf8 // indirect
	github.com/opencontainers/go-digest v1.0.0 // indirect
	github.com/vbatts/tar-split v0.12.2 // indirect
)

replace github.com/containerd/stargz-snapshotter => /repo

replace github.com/containerd/stargz-snapshotter/cmd => /repo/cmd

replace github.com/containerd/stargz-snapshotter/estargz => /repo/estargz

replace github.com/containerd/stargz-snapshotter/ipfs => /repo/ipfs
