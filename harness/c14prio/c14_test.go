// C14 — prioritized files are laid out first, in order, ahead of a single landmark.
package c14prio

import (
	"archive/tar"
	"fmt"
	"path"
	"reflect"
	"strings"
	"testing"

	"pgregory.net/rapid"
	"verifharness/lib/esgzbuild"
	"verifharness/lib/esgzref"
	"verifharness/lib/pbt"
	"verifharness/lib/tarmodel"
)

type Case struct {
	Archive tarmodel.Archive `json:"archive"`
	Opts    esgzbuild.Opts   `json:"opts"`
}

const (
	prefetchLandmark   = ".prefetch.landmark"
	noPrefetchLandmark = ".no.prefetch.landmark"
	tocName            = "stargz.index.json"
)

func gen(t *rapid.T) Case {
	var c Case
	c.Opts = esgzbuild.GenOpts(t, []string{"gzip", "gzip", "zstd", "external"})
	cs := c.Opts.ChunkSize
	if cs == 0 {
		cs = 64
	}
	c.Archive = tarmodel.Gen(t, tarmodel.GenOpts{MaxEntries: 14, ChunkSize: cs, Hardlinks: true, Devices: true, Dups: true, Spellings: true, RootEntry: true})
	if rapid.IntRange(0, 4).Draw(t, "landmark-in-input") == 0 {
		e := tarmodel.Entry{Name: rapid.SampledFrom([]string{prefetchLandmark, noPrefetchLandmark, "./" + prefetchLandmark, "a/" + prefetchLandmark}).Draw(t, "lmname"), Type: "reg", Mode: 0o644, Size: 1, Seed: 3, MTime: 1600000000}
		pos := rapid.IntRange(0, len(c.Archive.Entries)).Draw(t, "lmpos")
		c.Archive.Entries = append(c.Archive.Entries[:pos], append([]tarmodel.Entry{e}, c.Archive.Entries[pos:]...)...)
	}
	if rapid.IntRange(0, 3).Draw(t, "dangling") == 0 {
		// hard links whose target (directly or at the end of a chain) is not in the archive: they are entries of the
		// input like any other; listed, they count as paths that do not exist
		c.Archive.Entries = append(c.Archive.Entries,
			tarmodel.Entry{Name: "dangle", Type: "hardlink", Link: "no/such/target", Mode: 0o644, MTime: 1600000000},
			tarmodel.Entry{Name: "dangle2", Type: "hardlink", Link: "dangle", Mode: 0o644, MTime: 1600000000})
	}
	// candidate paths: existing names, their parents (explicit or implicit), hardlink targets, root, missing
	var cands []string
	for _, e := range c.Archive.Entries {
		cn := tarmodel.Clean(e.Name)
		cands = append(cands, cn)
		for d := cn; strings.Contains(d, "/"); {
			d = d[:strings.LastIndex(d, "/")]
			cands = append(cands, d)
		}
	}
	cands = append(cands, "", "missing", "a/missing", "zz/y")
	n := rapid.SampledFrom([]int{0, 1, 1, 2, 3, 4, 6}).Draw(t, "nprio")
	for i := 0; i < n; i++ {
		p := rapid.SampledFrom(cands).Draw(t, "prio")
		sp := rapid.SampledFrom([]string{"", "", "/", "./", "../"}).Draw(t, "spell") + p
		if p != "" && rapid.IntRange(0, 5).Draw(t, "trail") == 0 {
			sp += "/"
		}
		if sp == "" {
			sp = rapid.SampledFrom([]string{"/", ".", "./"}).Draw(t, "rootspell")
		}
		c.Opts.Prioritized = append(c.Opts.Prioritized, sp)
	}
	c.Opts.AllowMissing = rapid.Bool().Draw(t, "allow")
	return c
}

func run(c Case, ev *pbt.Ev) error {
	tarBytes, err := c.Archive.Tar()
	if err != nil {
		return pbt.Inconclusive("generator produced an archive the standard library refuses: %v", err)
	}
	raw, err := tarmodel.ReadTar(tarBytes)
	if err != nil {
		return pbt.Inconclusive("stdlib cannot read back its own tar: %v", err)
	}
	want := tarmodel.Dedup(raw, map[string]bool{prefetchLandmark: true, noPrefetchLandmark: true, tocName: true})
	byName := map[string]tarmodel.RawEntry{}
	for _, e := range want {
		byName[e.Clean] = e
	}
	// which listed paths exist
	danglingDirs := map[string]bool{}
	var missing []string
	var listed []string // clean names of existing listed paths, first mention order
	seen := map[string]bool{}
	for _, l := range c.Opts.Prioritized {
		cn := tarmodel.Clean(l)
		if _, ok := byName[cn]; !ok && cn != "" {
			missing = append(missing, l)
			continue
		}
		// a hard link whose chain of targets ends outside the archive cannot be placed either
		dangling := false
		for e, hops := byName[cn], 0; cn != "" && e.Hdr != nil && e.Hdr.Typeflag == tar.TypeLink && hops < 64; hops++ {
			t, ok := byName[tarmodel.Clean(e.Hdr.Linkname)]
			if !ok {
				dangling = true
				break
			}
			e = t
		}
		if dangling {
			missing = append(missing, l)
			ev.Class("listed-dangling-hardlink")
			// (its directories may already have been placed when the missing target is discovered: directories
			// carry no data, the statement says nothing against them)
			for d := cn; ; {
				i := strings.LastIndex(d, "/")
				if i < 0 {
					danglingDirs[""] = true
					break
				}
				d = d[:i]
				danglingDirs[d] = true
			}
			continue
		}
		if !seen[cn] {
			seen[cn] = true
			listed = append(listed, cn)
		}
	}
	res, err := esgzbuild.Build(tarBytes, c.Opts)
	ev.ClassIf(len(missing) > 0, "has-missing")
	ev.ClassIf(len(c.Opts.Prioritized) == 0, "empty-list")
	if len(missing) > 0 && !c.Opts.AllowMissing {
		if err == nil {
			return pbt.Violf("missing-accepted", "prioritized paths %q do not exist, allow-not-found is off, but Build succeeded", missing)
		}
		ev.Class("aborted-on-missing")
		return nil
	}
	if err != nil {
		return pbt.Violf("build-failed", "Build failed although every listed path exists or allow-not-found is on: %v (list %q)", err, c.Opts.Prioritized)
	}
	// (the statement only says "reported back": repeats of one spelling may be reported once or every time)
	if c.Opts.AllowMissing && !reflect.DeepEqual(uniq(res.Missed), uniq(missing)) {
		return pbt.Violf("missed-report", "reported missed paths %q, the list's non-existing paths are %q", res.Missed, missing)
	}
	dec, err := esgzref.DecompressAll(res.Blob, c.Opts.Compression)
	if err != nil {
		return pbt.Violf("not-a-valid-stream", "%v", err)
	}
	out, err := tarmodel.ReadTar(dec)
	if err != nil {
		return pbt.Violf("not-a-valid-tar", "%v", err)
	}
	if c.Opts.Compression == "gzip" && len(out) > 0 && out[len(out)-1].Hdr.Name == tocName {
		out = out[:len(out)-1]
	}
	// closure, in the statement's terms: for each listed file in order, its not yet placed explicit
	// ancestors and hardlink targets (with their ancestors), then the file.
	placed := map[string]int{} // clean name -> index i of the listed path that introduced it
	var introduce func(cn string, i int, depth int) error
	introduce = func(cn string, i int, depth int) error {
		if depth > 100 {
			return fmt.Errorf("model: link cycle")
		}
		// ancestors top-down
		parts := strings.Split(cn, "/")
		if _, ok := byName[""]; ok {
			if _, done := placed[""]; !done {
				placed[""] = i
			}
		}
		for k := 1; k < len(parts); k++ {
			anc := strings.Join(parts[:k], "/")
			if _, ok := byName[anc]; ok {
				if _, done := placed[anc]; !done {
					placed[anc] = i
				}
			}
		}
		e, ok := byName[cn]
		if !ok {
			return nil
		}
		if e.Hdr.Typeflag == tar.TypeLink {
			if err := introduce(tarmodel.Clean(e.Hdr.Linkname), i, depth+1); err != nil {
				return err
			}
		}
		if _, done := placed[cn]; !done {
			placed[cn] = i
		}
		return nil
	}
	for i, cn := range listed {
		if err := introduce(cn, i, 0); err != nil {
			return pbt.Inconclusive("%v", err)
		}
	}
	// locate the landmark
	lmIdx, lmCount := -1, 0
	wantLm := noPrefetchLandmark
	if len(c.Opts.Prioritized) > 0 {
		wantLm = prefetchLandmark
	}
	for i, e := range out {
		if e.Hdr.Name == prefetchLandmark || e.Hdr.Name == noPrefetchLandmark {
			lmCount++
			lmIdx = i
			if e.Hdr.Name != wantLm {
				return pbt.Violf("wrong-landmark", "landmark %q, want %q (list has %d paths)", e.Hdr.Name, wantLm, len(c.Opts.Prioritized))
			}
		}
	}
	if lmCount != 1 {
		return pbt.Violf("landmark-count", "%d landmarks in the output, want exactly one", lmCount)
	}
	group, rest := out[:lmIdx], out[lmIdx+1:]
	// permutation
	if len(group)+len(rest) != len(want) {
		return pbt.Violf("entry-count", "output has %d entries besides the landmark, de-duplicated input has %d", len(group)+len(rest), len(want))
	}
	count := map[string]int{}
	for _, e := range append(append([]tarmodel.RawEntry{}, group...), rest...) {
		count[e.Clean]++
		w, ok := byName[e.Clean]
		if !ok || count[e.Clean] > 1 {
			return pbt.Violf("not-a-permutation", "output entry %q is duplicated or not part of the input", e.Hdr.Name)
		}
		if !reflect.DeepEqual(w.Hdr, e.Hdr) {
			return pbt.Violf("header-changed", "entry %q changed by reordering", e.Hdr.Name)
		}
	}
	// group == closure
	pos := map[string]int{}
	for i, e := range group {
		pos[e.Clean] = i
		if _, ok := placed[e.Clean]; !ok {
			if danglingDirs[e.Clean] && e.Hdr.Typeflag == tar.TypeDir {
				continue
			}
			return pbt.Violf("group-extra", "entry %q is laid out before the landmark but is neither listed nor a parent / link target of a listed path (list %q)", e.Hdr.Name, c.Opts.Prioritized)
		}
	}
	for cn := range placed {
		if _, ok := pos[cn]; !ok {
			return pbt.Violf("group-missing", "entry %q belongs to the prioritized group (list %q) but is laid out after the landmark", cn, c.Opts.Prioritized)
		}
	}
	// order inside the group
	for _, e := range group {
		cn := e.Clean
		i := placed[cn]
		for d := cn; strings.Contains(d, "/"); {
			d = d[:strings.LastIndex(d, "/")]
			if p, ok := pos[d]; ok && p > pos[cn] {
				return pbt.Violf("parent-after-child", "directory %q is laid out after its child %q", d, cn)
			}
		}
		if e.Hdr.Typeflag == tar.TypeLink {
			tg := tarmodel.Clean(e.Hdr.Linkname)
			if p, ok := pos[tg]; ok && p > pos[cn] {
				return pbt.Violf("target-after-link", "hardlink target %q is laid out after the link %q", tg, cn)
			}
		}
		for _, f := range group {
			if j := placed[f.Clean]; j > i && pos[f.Clean] < pos[cn] {
				return pbt.Violf("list-order", "entry %q (introduced by listed path #%d %q) precedes %q (introduced by #%d %q)", f.Clean, j, listed[j], cn, i, listed[i])
			}
		}
		if i < len(listed) && listed[i] != cn && placed[listed[i]] == i && pos[listed[i]] < pos[cn] {
			return pbt.Violf("file-before-its-parents", "listed path %q is laid out before %q which it needs", listed[i], cn)
		}
	}
	// rest keeps the input's relative order
	ri := 0
	for _, w := range want {
		if _, ok := placed[w.Clean]; ok {
			continue
		}
		if _, inGroup := pos[w.Clean]; inGroup && danglingDirs[w.Clean] {
			continue // a tolerated directory of a dangling listed link, already laid out before the landmark
		}
		if ri >= len(rest) || rest[ri].Clean != w.Clean {
			got := "<none>"
			if ri < len(rest) {
				got = rest[ri].Hdr.Name
			}
			return pbt.Violf("rest-order", "after the landmark: position %d holds %q, input order says %q", ri, got, w.Hdr.Name)
		}
		ri++
	}
	// offsets in the TOC
	p, err := esgzref.Parse(res.Blob, res.ExternalTOC)
	if err != nil {
		return pbt.Violf("unparsable", "%v", err)
	}
	var lm *esgzref.Entry
	for _, e := range p.TOC.Entries {
		if e.Name == wantLm && e.Type == "reg" {
			lm = e
		}
	}
	if lm == nil {
		return pbt.Violf("landmark-not-in-toc", "TOC has no %s entry", wantLm)
	}
	if lm.InnerOffset != 0 {
		return pbt.Violf("landmark-inner-offset", "landmark has innerOffset %d: it does not start a compression stream", lm.InnerOffset)
	}
	cur := ""
	dataBefore, dataAfter := false, false
	for _, e := range p.TOC.Entries {
		if e.Type != "reg" && e.Type != "chunk" {
			continue
		}
		if e.Type == "reg" {
			cur = tarmodel.Clean(e.Name)
			if e.Size == 0 {
				continue
			}
		}
		if cur == wantLm {
			continue
		}
		_, inGroup := placed[cur]
		if inGroup && e.Offset >= lm.Offset {
			return pbt.Violf("data-after-landmark", "data of prioritized file %q (chunk at %d) lies at offset %d, landmark is at %d", cur, e.ChunkOffset, e.Offset, lm.Offset)
		}
		if !inGroup && e.Offset < lm.Offset {
			return pbt.Violf("data-before-landmark", "data of non-prioritized file %q (chunk at %d) lies at offset %d before the landmark at %d", cur, e.ChunkOffset, e.Offset, lm.Offset)
		}
		if inGroup {
			dataBefore = true
		} else {
			dataAfter = true
		}
	}
	nested, hl := false, false
	for _, cn := range listed {
		if strings.Contains(cn, "/") {
			nested = true
		}
		if e, ok := byName[cn]; ok && e.Hdr.Typeflag == tar.TypeLink {
			hl = true
		}
	}
	ev.ClassIf(nested, "nested-listed")
	ev.ClassIf(hl, "hardlink-listed")
	ev.ClassIf(dataBefore && dataAfter, "data-on-both-sides")
	ev.ClassIf(c.Opts.MinChunkSize > 0, "min-chunk")
	ev.ClassIf(c.Opts.Workers >= 2, "workers>=2")
	ev.NTIf(len(listed) > 0 && (nested || hl) && (c.Opts.MinChunkSize > 0 || c.Opts.Workers >= 2))
	_ = path.Base
	return nil
}

func uniq(in []string) []string {
	out := []string{}
	seen := map[string]bool{}
	for _, s := range in {
		if !seen[s] {
			seen[s] = true
			out = append(out, s)
		}
	}
	return out
}

func TestProp_Layout(t *testing.T) {
	pbt.Run(t, pbt.Options{Prop: "C14", Name: "Layout", Quick: 3000, Thorough: 90000,
		Rule: "rapid: archive (as C03, plus landmark-named entries in the input and a root entry) x prioritized list of 0-6 paths drawn from {existing entries, their explicit or implicit parents, hardlinks, root, missing paths} in spellings a/b /a/b ./a/b ../a/b a/b/ with repeats x allow-not-found x chunk/min-chunk/workers/compression; " +
			"oracle: validity predicate from the statement (permutation of the de-duplicated input; one landmark of the right kind; group before the landmark == listed paths + their explicit ancestors + hardlink targets transitively; list order; parents/targets first; rest in input order; TOC offsets of file data strictly before / not before the landmark; missing paths abort or are reported). " +
			"non-trivial = list has an existing nested path or hardlink, and min-chunk-size > 0 or workers >= 2",
	}, gen, run)
}
