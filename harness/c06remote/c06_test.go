// C06 — remote blob reads are byte-exact under any server behaviour and concurrency.
package c06remote

import (
	"bytes"
	"context"
	"fmt"
	"os"
	"sync"
	"sync/atomic"
	"testing"
	"time"

	"github.com/containerd/containerd/v2/pkg/reference"
	"github.com/containerd/stargz-snapshotter/cache"
	"github.com/containerd/stargz-snapshotter/fs/config"
	"github.com/containerd/stargz-snapshotter/fs/remote"
	"github.com/containerd/stargz-snapshotter/util/cacheutil"
	digest "github.com/opencontainers/go-digest"
	ocispec "github.com/opencontainers/image-spec/specs-go/v1"
	"pgregory.net/rapid"
	"verifharness/lib/memreg"
	"verifharness/lib/pbt"
	"verifharness/lib/tarmodel"
)

type Op struct {
	Op  string `json:"op"` // read | cache | check | refresh | dropcache | fetched
	Off int64  `json:"off,omitempty"`
	Len int    `json:"len,omitempty"`
}

type Pers struct {
	Kind string `json:"kind"`        // default multipart multipart-reorder single-super whole 403 400 500 conn-error truncate
	N    int64  `json:"n,omitempty"` // truncate after n body bytes
}

type Case struct {
	Size      int    `json:"size"`
	Seed      uint32 `json:"seed"`
	ChunkSize int64  `json:"chunk_size"`
	Prefetch  int64  `json:"prefetch_chunk_size,omitempty"`
	Cache     string `json:"cache"` // memory | dir | dir-direct
	Redirect  bool   `json:"redirect,omitempty"`
	Piece     int    `json:"body_piece,omitempty"`
	Script    []Pers `json:"script"` // one per fetch request, in arrival order; afterwards default
	Ops       []Op   `json:"ops"`
}

var benign = map[string]bool{"default": true, "multipart": true, "multipart-reorder": true, "single-super": true, "whole": true}

func genPers(t *rapid.T) Pers {
	k := rapid.SampledFrom([]string{"default", "default", "multipart", "multipart-reorder", "single-super", "whole", "403", "400", "500", "conn-error", "truncate", "omit-last"}).Draw(t, "pers")
	p := Pers{Kind: k}
	if k == "truncate" {
		p.N = int64(rapid.IntRange(0, 40).Draw(t, "trunc"))
	}
	return p
}

func genOp(t *rapid.T, size int, cs int64) Op {
	o := Op{Op: rapid.SampledFrom([]string{"read", "read", "read", "read", "cache", "check", "refresh", "dropcache", "fetched"}).Draw(t, "op")}
	if o.Op == "read" || o.Op == "cache" {
		// offsets / lengths around chunk edges and EOF
		edges := []int64{0, 1, cs - 1, cs, cs + 1, 2*cs - 1, 2 * cs, int64(size) - 1, int64(size), int64(size) + 1, int64(size) + cs}
		if rapid.Bool().Draw(t, "edge") {
			o.Off = rapid.SampledFrom(edges).Draw(t, "offe")
		} else {
			o.Off = int64(rapid.IntRange(0, size+5).Draw(t, "off"))
		}
		if o.Off < 0 {
			o.Off = 0
		}
		o.Len = rapid.SampledFrom([]int{0, 1, 2, int(cs) - 1, int(cs), int(cs) + 1, 2 * int(cs), 3*int(cs) + 1, size, size + 7}).Draw(t, "len")
		if o.Len < 0 {
			o.Len = 0
		}
	}
	return o
}

func gen(t *rapid.T) Case {
	cs := int64(rapid.SampledFrom([]int{1, 2, 3, 8, 16, 64}).Draw(t, "chunk"))
	k := rapid.IntRange(0, 6).Draw(t, "k")
	size := int(cs)*k + rapid.SampledFrom([]int{-1, 0, 0, 1, 3}).Draw(t, "delta")
	if size < 0 {
		size = 0
	}
	if size > 400 {
		size = 400
	}
	c := Case{Size: size, Seed: rapid.Uint32Range(1, 1000).Draw(t, "seed"), ChunkSize: cs,
		Prefetch: rapid.SampledFrom([]int64{0, 0, cs - 1, 2 * cs, 5 * cs}).Draw(t, "prefetch"),
		Cache:    rapid.SampledFrom([]string{"memory", "dir", "dir-direct"}).Draw(t, "cache"),
		Redirect: rapid.IntRange(0, 3).Draw(t, "redirect") == 0,
		Piece:    rapid.SampledFrom([]int{0, 0, 1, 3, 16}).Draw(t, "piece"),
	}
	if c.Prefetch < 0 {
		c.Prefetch = 0
	}
	c.Script = rapid.SliceOfN(rapid.Custom(genPers), 0, 8).Draw(t, "script")
	c.Ops = rapid.SliceOfN(rapid.Custom(func(t *rapid.T) Op { return genOp(t, size, cs) }), 1, 10).Draw(t, "ops")
	return c
}

// recCache wraps a BlobCache and records what was committed (distinct keys -> bytes).
type recCache struct {
	cache.BlobCache
	mu        sync.Mutex
	committed map[string]int64
	drop      atomic.Bool // pretend every lookup misses
}

func (r *recCache) Get(key string, opts ...cache.Option) (cache.Reader, error) {
	if r.drop.Load() {
		return nil, fmt.Errorf("recCache: dropped")
	}
	return r.BlobCache.Get(key, opts...)
}

func (r *recCache) Add(key string, opts ...cache.Option) (cache.Writer, error) {
	w, err := r.BlobCache.Add(key, opts...)
	if err != nil {
		return nil, err
	}
	return &recWriter{Writer: w, r: r, key: key}, nil
}

type recWriter struct {
	cache.Writer
	r   *recCache
	key string
	n   int64
}

func (w *recWriter) Write(p []byte) (int, error) {
	n, err := w.Writer.Write(p)
	w.n += int64(n)
	return n, err
}

func (w *recWriter) Commit() error {
	err := w.Writer.Commit()
	if err == nil {
		w.r.mu.Lock()
		w.r.committed[w.key] = w.n
		w.r.mu.Unlock()
	}
	return err
}

func newCache(kind string) (*recCache, func(), error) {
	rc := &recCache{committed: map[string]int64{}}
	if kind == "memory" {
		rc.BlobCache = cache.NewMemoryCache()
		return rc, func() {}, nil
	}
	dir, err := os.MkdirTemp("", "c06cache")
	if err != nil {
		return nil, nil, err
	}
	d, f := cacheutil.NewLRUCache(1), cacheutil.NewLRUCache(1)
	pool := &sync.Pool{New: func() any { return new(bytes.Buffer) }}
	d.OnEvicted = func(key string, value any) { value.(*bytes.Buffer).Reset(); pool.Put(value) }
	f.OnEvicted = func(key string, value any) { value.(*os.File).Close() }
	c, err := cache.NewDirectoryCache(dir, cache.DirectoryCacheConfig{SyncAdd: true, DataCache: d, FdCache: f, BufPool: pool, Direct: kind == "dir-direct"})
	if err != nil {
		os.RemoveAll(dir)
		return nil, nil, err
	}
	rc.BlobCache = c
	return rc, func() { os.RemoveAll(dir) }, nil
}

type env struct {
	c            Case
	blob         []byte
	reg          *memreg.Registry
	dgst         digest.Digest
	mu           sync.Mutex
	fetchSeq     int
	failures     int             // failure personalities served so far
	pendingRetry map[string]bool // span of a fetch that was answered 403/400: the next fetch of that span is the client's single retry
	singleMode   bool            // a 400 has been served: the client is in single-range mode
	bad          []string
}

func (e *env) decide(q *memreg.Req) memreg.Action {
	isFetch := q.Header.Get("Accept-Encoding") == "identity"
	if e.c.Redirect && q.Host == "reg.example" {
		return memreg.Action{Kind: "redirect", Location: "https://cdn.example/blobs/" + e.dgst.String()}
	}
	if !isFetch {
		return memreg.Action{}
	}
	e.mu.Lock()
	defer e.mu.Unlock()
	// every fetch must ask for chunk aligned ranges inside the blob
	for _, r := range q.Ranges {
		if r.B%e.c.ChunkSize != 0 || r.B < 0 || r.B >= int64(len(e.blob)) || r.E < r.B || (r.E+1)%e.c.ChunkSize != 0 && r.E != int64(len(e.blob))-1 {
			e.bad = append(e.bad, fmt.Sprintf("request %d asks for [%d,%d] (chunk size %d, blob size %d)", q.Seq, r.B, r.E, e.c.ChunkSize, len(e.blob)))
		}
	}
	i := e.fetchSeq
	e.fetchSeq++
	// a retry is recognised by the span it asks for (400 makes the client squash its ranges into one)
	lo, hi := int64(-1), int64(-1)
	for _, r := range q.Ranges {
		if lo < 0 || r.B < lo {
			lo = r.B
		}
		if r.E > hi {
			hi = r.E
		}
	}
	span := fmt.Sprintf("%d-%d", lo, hi)
	if e.pendingRetry == nil {
		e.pendingRetry = map[string]bool{}
	}
	if i >= len(e.c.Script) {
		delete(e.pendingRetry, span)
		return memreg.Action{}
	}
	p := e.c.Script[i]
	isRetry := e.pendingRetry[span]
	delete(e.pendingRetry, span)
	if p.Kind == "403" || p.Kind == "400" {
		e.pendingRetry[span] = true
	}
	switch p.Kind {
	case "omit-last":
		if len(q.Ranges) > 1 {
			e.failures++ // the server leaves out a requested range: the call may (must) fail
		}
		return memreg.Action{Kind: "multipart-omit-last"}
	case "403":
		if isRetry {
			e.failures++ // the one retry is used up: the call may fail
		}
		return memreg.Action{Kind: "status", Status: 403}
	case "400":
		if isRetry || e.singleMode {
			e.failures++
		}
		e.singleMode = true
		return memreg.Action{Kind: "status", Status: 400}
	case "500":
		e.failures++
		return memreg.Action{Kind: "status", Status: 500}
	case "conn-error":
		e.failures++
		return memreg.Action{Kind: "conn-error"}
	case "truncate":
		e.failures++
		return memreg.Action{Kind: "truncate", N: p.N}
	case "default":
		return memreg.Action{}
	}
	return memreg.Action{Kind: p.Kind}
}

func setup(c Case) (*env, remote.Blob, *recCache, func(), error) {
	e := &env{c: c, blob: tarmodel.Content(c.Seed, c.Size)}
	e.dgst = digest.FromBytes(e.blob)
	e.reg = memreg.New()
	e.reg.AddBlob(e.dgst.String(), e.blob)
	e.reg.Decide = e.decide
	e.reg.Piece = c.Piece
	rc, cleanup, err := newCache(c.Cache)
	if err != nil {
		return nil, nil, nil, nil, err
	}
	res := remote.NewResolver(config.BlobConfig{ChunkSize: c.ChunkSize, PrefetchChunkSize: c.Prefetch, FetchTimeoutSec: 5, CheckAlways: true}, nil)
	ref, _ := reference.Parse("reg.example/repo/img:latest")
	desc := ocispec.Descriptor{Digest: e.dgst, Size: int64(len(e.blob)), MediaType: ocispec.MediaTypeImageLayerGzip}
	b, err := res.Resolve(context.Background(), e.reg.Hosts(), ref, desc, rc)
	if err != nil {
		cleanup()
		return nil, nil, nil, nil, fmt.Errorf("resolve: %w", err)
	}
	return e, b, rc, func() { b.Close(); cleanup() }, nil
}

func checkRead(e *env, b remote.Blob, off int64, ln int, failuresBefore int) error {
	p := make([]byte, ln)
	for i := range p {
		p[i] = 0xEE
	}
	n, err := b.ReadAt(p, off)
	e.mu.Lock()
	failed := e.failures > failuresBefore
	e.mu.Unlock()
	size := int64(len(e.blob))
	want := int64(ln)
	if off >= size {
		want = 0
	} else if off+want > size {
		want = size - off
	}
	if err != nil {
		if failed {
			return nil // a scripted failure was visible to this call
		}
		return pbt.Violf("read-error", "ReadAt(len %d, off %d) of a %d byte blob failed although the server only answered with legal personalities: %v", ln, off, size, err)
	}
	if int64(n) != want {
		return pbt.Violf("read-count", "ReadAt(len %d, off %d) of a %d byte blob returned n=%d, want %d", ln, off, size, n, want)
	}
	if want > 0 && !bytes.Equal(p[:n], e.blob[off:off+want]) {
		return pbt.Violf("read-bytes", "ReadAt(len %d, off %d) returned bytes that are not blob[%d:%d] (chunk size %d)", ln, off, off, off+want, e.c.ChunkSize)
	}
	return nil
}

func run(c Case, ev *pbt.Ev) error {
	e, b, rc, cleanup, err := setup(c)
	if err != nil {
		return pbt.Violf("resolve-failed", "%v", err)
	}
	defer cleanup()
	ref, _ := reference.Parse("reg.example/repo/img:latest")
	desc := ocispec.Descriptor{Digest: e.dgst, Size: int64(len(e.blob)), MediaType: ocispec.MediaTypeImageLayerGzip}
	var lastFetched int64
	multiChunkCachedRead := false
	for i, op := range c.Ops {
		e.mu.Lock()
		fb := e.failures
		e.mu.Unlock()
		switch op.Op {
		case "read":
			rc.mu.Lock()
			had := len(rc.committed) > 0
			rc.mu.Unlock()
			if err := checkRead(e, b, op.Off, op.Len, fb); err != nil {
				return fmt.Errorf("step %d: %w", i, err)
			}
			if had && int64(op.Len) > c.ChunkSize {
				multiChunkCachedRead = true
			}
		case "cache":
			err := b.Cache(op.Off, int64(op.Len))
			e.mu.Lock()
			failed := e.failures > fb
			e.mu.Unlock()
			if err != nil && !failed && op.Len > 0 && op.Off < int64(len(e.blob)) {
				return pbt.Violf("cache-error", "step %d: Cache(%d,%d) failed without a scripted failure: %v", i, op.Off, op.Len, err)
			}
		case "check":
			if err := b.Check(); err != nil {
				return pbt.Violf("check-error", "step %d: Check failed although the registry answers: %v", i, err)
			}
		case "refresh":
			if err := b.Refresh(context.Background(), e.reg.Hosts(), ref, desc); err != nil {
				return pbt.Violf("refresh-error", "step %d: Refresh failed although the registry answers: %v", i, err)
			}
		case "dropcache":
			rc.drop.Store(!rc.drop.Load())
			ev.Class("cache-loss")
		}
		fs := b.FetchedSize()
		if fs < lastFetched {
			return pbt.Violf("fetched-size-decreased", "step %d (%s): FetchedSize went from %d to %d", i, op.Op, lastFetched, fs)
		}
		if fs > int64(len(e.blob)) {
			return pbt.Violf("fetched-size-too-large", "step %d: FetchedSize %d exceeds the blob size %d", i, fs, len(e.blob))
		}
		lastFetched = fs
		ev.Steps++
	}
	// quiescence: fetched size == number of distinct blob bytes committed to the cache
	rc.mu.Lock()
	var stored int64
	for _, n := range rc.committed {
		stored += n
	}
	rc.mu.Unlock()
	if fs := b.FetchedSize(); fs != stored {
		return pbt.Violf("fetched-size-mismatch", "FetchedSize reports %d, the cache holds %d distinct blob bytes under %d keys", fs, stored, len(rc.committed))
	}
	e.mu.Lock()
	bad := e.bad
	nonDefault := false
	for i := 0; i < e.fetchSeq && i < len(c.Script); i++ {
		if c.Script[i].Kind != "default" {
			nonDefault = true
		}
	}
	e.mu.Unlock()
	if len(bad) > 0 {
		return pbt.Violf("unaligned-request", "%s", bad[0])
	}
	ev.Class("cache-" + c.Cache)
	ev.ClassIf(nonDefault, "non-default-personality")
	ev.ClassIf(e.failures > 0, "failure-served")
	ev.ClassIf(multiChunkCachedRead, "multi-chunk-read-with-cache")
	ev.ClassIf(c.Redirect, "redirect")
	ev.NTIf(nonDefault && multiChunkCachedRead)
	return nil
}

func TestProp_Sequential(t *testing.T) {
	pbt.Run(t, pbt.Options{Prop: "C06", Name: "Sequential", Quick: 20000, Thorough: 240000, Timeout: 60 * time.Second,
		Rule: "rapid: blob size k*chunk+{-1,0,1,3} (0-400 bytes), chunk size 1-64, prefetch chunk size, cache {memory, directory LRU 1 (+direct)}, optional redirect at resolve, a script giving the n-th range fetch a personality {exact 206/multipart, forced multipart, reordered parts, one squashed super-range, whole body 200, 403 then refresh, 400 forcing single-range mode, 500, connection error, truncated body}, " +
			"and 1-10 ops read(off,len around chunk edges and EOF)/Cache/Check/Refresh/cache-loss; oracle: a successful read returns exactly blob[off:min(off+len,size)]; an error needs a scripted failure visible to that call; FetchedSize monotone, <= size, == distinct bytes committed to the recording cache; only chunk-aligned in-range requests reach the server. " +
			"non-trivial = a non-default personality was served and a multi-chunk read happened with chunks already cached",
	}, gen, run)
}

// ---------------------------------------------------------------------------------------
// concurrent readers sharing fetches

type ConcCase struct {
	Size      int    `json:"size"`
	Seed      uint32 `json:"seed"`
	ChunkSize int64  `json:"chunk_size"`
	Cache     string `json:"cache"`
	Pers      []Pers `json:"script"` // benign personalities only
	Same      Op     `json:"same"`   // the read every goroutine issues first, simultaneously (shared single flight)
	Programs  [][]Op `json:"programs"`
	DropAfter bool   `json:"drop_after_first,omitempty"` // cache loss between the shared fetch and the copies
}

func genConc(t *rapid.T) ConcCase {
	cs := int64(rapid.SampledFrom([]int{1, 2, 8, 16}).Draw(t, "chunk"))
	size := int(cs)*rapid.IntRange(1, 6).Draw(t, "k") + rapid.SampledFrom([]int{-1, 0, 1}).Draw(t, "delta")
	c := ConcCase{Size: size, Seed: rapid.Uint32Range(1, 1000).Draw(t, "seed"), ChunkSize: cs, Cache: rapid.SampledFrom([]string{"memory", "dir", "dir-direct"}).Draw(t, "cache")}
	c.Pers = rapid.SliceOfN(rapid.Custom(func(t *rapid.T) Pers {
		return Pers{Kind: rapid.SampledFrom([]string{"default", "multipart", "multipart-reorder", "single-super", "whole"}).Draw(t, "pers")}
	}), 0, 6).Draw(t, "script")
	c.Same = genOp(t, size, cs)
	c.Same.Op = "read"
	if c.Same.Len == 0 {
		c.Same.Len = int(cs) + 1
	}
	g := rapid.IntRange(2, 8).Draw(t, "goroutines")
	for i := 0; i < g; i++ {
		c.Programs = append(c.Programs, rapid.SliceOfN(rapid.Custom(func(t *rapid.T) Op {
			o := genOp(t, size, cs)
			if o.Op != "read" && o.Op != "cache" && o.Op != "fetched" {
				o.Op = "read"
			}
			return o
		}), 0, 5).Draw(t, "prog"))
	}
	c.DropAfter = rapid.IntRange(0, 3).Draw(t, "drop") == 0
	return c
}

func runConc(c ConcCase, ev *pbt.Ev) error {
	sc := Case{Size: c.Size, Seed: c.Seed, ChunkSize: c.ChunkSize, Cache: c.Cache, Script: c.Pers}
	e, b, rc, cleanup, err := setup(sc)
	if err != nil {
		return pbt.Violf("resolve-failed", "%v", err)
	}
	defer cleanup()
	// stall the first fetch until every goroutine has issued the common read
	var arrived atomic.Int32
	release := make(chan struct{})
	var once sync.Once
	inner := e.reg.Decide
	var firstFetch atomic.Bool
	e.reg.Decide = func(q *memreg.Req) memreg.Action {
		a := inner(q)
		if q.Header.Get("Accept-Encoding") == "identity" && firstFetch.CompareAndSwap(false, true) && a.Kind == "" {
			return memreg.Action{Kind: "stall", Gate: release}
		}
		return a
	}
	var firstErr atomic.Pointer[error]
	fail := func(err error) { firstErr.CompareAndSwap(nil, &err) }
	stop := make(chan struct{})
	var sampler sync.WaitGroup
	sampler.Add(1)
	go func() { // FetchedSize is sampled concurrently: never decreases, never exceeds the size
		defer sampler.Done()
		var last int64
		for {
			select {
			case <-stop:
				return
			default:
			}
			fs := b.FetchedSize()
			if fs < last {
				fail(pbt.Violf("fetched-size-decreased", "concurrent sampler: FetchedSize went from %d to %d", last, fs))
			}
			if fs > int64(len(e.blob)) {
				fail(pbt.Violf("fetched-size-too-large", "concurrent sampler: FetchedSize %d > blob size %d", fs, len(e.blob)))
			}
			last = fs
			time.Sleep(20 * time.Microsecond)
		}
	}()
	var wg sync.WaitGroup
	for gi, prog := range c.Programs {
		wg.Add(1)
		go func(gi int, prog []Op) {
			defer wg.Done()
			if int(arrived.Add(1)) == len(c.Programs) {
				go func() {
					time.Sleep(300 * time.Microsecond) // let the others block on the shared flight
					if c.DropAfter {
						rc.drop.Store(true)
						time.AfterFunc(2*time.Millisecond, func() { rc.drop.Store(false) })
					}
					once.Do(func() { close(release) })
				}()
			}
			if err := checkRead(e, b, c.Same.Off, c.Same.Len, -1<<30); err != nil {
				fail(fmt.Errorf("goroutine %d common read: %w", gi, err))
			}
			for i, op := range prog {
				switch op.Op {
				case "read":
					if err := checkRead(e, b, op.Off, op.Len, -1<<30); err != nil {
						fail(fmt.Errorf("goroutine %d step %d: %w", gi, i, err))
					}
				case "cache":
					b.Cache(op.Off, int64(op.Len))
				case "fetched":
					b.FetchedSize()
				}
			}
		}(gi, prog)
	}
	done := make(chan struct{})
	go func() { wg.Wait(); close(done) }()
	select {
	case <-done:
	case <-time.After(30 * time.Second):
		once.Do(func() { close(release) })
		<-done
	}
	close(stop)
	sampler.Wait()
	if p := firstErr.Load(); p != nil {
		return *p
	}
	rc.mu.Lock()
	var stored int64
	for _, n := range rc.committed {
		stored += n
	}
	rc.mu.Unlock()
	if fs := b.FetchedSize(); fs != stored {
		return pbt.Violf("fetched-size-mismatch", "FetchedSize reports %d, the cache holds %d distinct blob bytes", fs, stored)
	}
	e.mu.Lock()
	bad := e.bad
	e.mu.Unlock()
	if len(bad) > 0 {
		return pbt.Violf("unaligned-request", "%s", bad[0])
	}
	ev.Class(fmt.Sprintf("goroutines-%d", len(c.Programs)))
	ev.ClassIf(c.DropAfter, "cache-loss-between-fetch-and-copy")
	ev.NT()
	return nil
}

func TestProp_Concurrent(t *testing.T) {
	pbt.Run(t, pbt.Options{Prop: "C06", Name: "Concurrent", Quick: 3000, Thorough: 36000, Timeout: 90 * time.Second,
		Rule: "rapid: 2-8 goroutines first issue the same read while the first range fetch is stalled at a gate (so they join one single-flight fetch; optionally the cache 'loses' everything between the fetch and the copies), then run 0-5 generated reads/Cache calls each against benign server personalities; a sampler polls FetchedSize concurrently; " +
			"oracle per read: exact bytes and count; FetchedSize monotone, <= size, == committed bytes at quiescence; aligned requests only. non-trivial = every case (>= 2 goroutines share a fetch)",
	}, genConc, runConc)
}
