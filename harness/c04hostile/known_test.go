package c04hostile

import (
	"encoding/json"
	"os"
	"os/exec"
	"strings"
	"syscall"
	"testing"

	"verifharness/lib/esgzref"
	"verifharness/lib/pbt"
)

// TestKnown_AllocByDeclaredChunkSize re-establishes the recorded finding in a child process (the failure
// is a fatal error, so it cannot be observed in-process): a TOC entry that declares a 2^40 byte chunk
// makes the first read allocate that much.
func TestKnown_AllocByDeclaredChunkSize(t *testing.T) {
	const id = "C04-alloc-by-declared-chunk-size"
	if os.Getenv("VERIF_C04_CHILD") == "1" {
		lim := uint64(6 << 30)
		syscall.Setrlimit(syscall.RLIMIT_AS, &syscall.Rlimit{Cur: lim, Max: lim})
		js, _ := json.Marshal(esgzref.TOC{Version: 1, Entries: []*esgzref.Entry{{Name: "a", Type: "reg", Size: 1 << 40, Offset: 0,
			Digest: payloadChunkDigestOnce, ChunkDigest: payloadChunkDigestOnce}}})
		blob, ext := esgzref.Wrap("gzip", gzPayload, js, nil)
		consumeAll(blob, ext, true)
		os.Stdout.WriteString("CHILD-SURVIVED\n")
		return
	}
	cmd := exec.Command(os.Args[0], "-test.run", "^TestKnown_AllocByDeclaredChunkSize$")
	cmd.Env = append(os.Environ(), "VERIF_C04_CHILD=1")
	out, err := cmd.CombinedOutput()
	s := string(out)
	crashed := err != nil && (strings.Contains(s, "out of memory") || strings.Contains(s, "makeslice") || strings.Contains(s, "too large") || strings.Contains(s, "cannot allocate"))
	detail := "child survived"
	if crashed {
		for _, l := range strings.Split(s, "\n") {
			if strings.HasPrefix(l, "fatal error:") || strings.HasPrefix(l, "panic:") {
				detail = l
				break
			}
		}
	}
	pbt.Reproduced(id, crashed, detail)
	if !pbt.Known(id) && crashed {
		t.Errorf("finding %s reproduces but is not listed as known", id)
	}
}
