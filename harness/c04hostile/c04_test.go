// C04 — untrusted layer bytes and registry replies cause errors, never a crash or a hang.
package c04hostile

import (
	"encoding/binary"
	"encoding/json"
	"fmt"
	"strings"
	"testing"
	"time"

	"pgregory.net/rapid"
	"verifharness/lib/esgzbuild"
	"verifharness/lib/esgzref"
	"verifharness/lib/pbt"
	"verifharness/lib/tarmodel"
)

// ---------------------------------------------------------------------------------------
// base blobs (valid, built once per process by the repository's builder)

type base struct {
	kind   string
	blob   []byte
	ext    []byte
	tocOff int64
	tocSec []byte // the TOC section (between payload and footer)
	footer []byte
}

var bases = map[string]*base{}

func init() {
	a := tarmodel.Archive{Entries: []tarmodel.Entry{
		{Name: "a/", Type: "dir", Mode: 0o755, MTime: 1600000000},
		{Name: "a/f1", Type: "reg", Mode: 0o644, MTime: 1600000000, Size: 40, Seed: 1},
		{Name: "a/l", Type: "symlink", Mode: 0o777, MTime: 1600000000, Link: "f1"},
		{Name: "g", Type: "reg", Mode: 0o644, MTime: 1600000000, Size: 9, Seed: 2},
		{Name: "h", Type: "hardlink", Mode: 0o644, MTime: 1600000000, Link: "g"},
	}}
	tb, err := a.Tar()
	if err != nil {
		panic(err)
	}
	for _, kind := range []string{"gzip", "zstd", "external"} {
		b, err := esgzbuild.Build(tb, esgzbuild.Opts{Compression: kind, Level: 1, ChunkSize: 16, Workers: 1})
		if err != nil {
			panic(err)
		}
		bs := &base{kind: kind, blob: b.Blob, ext: b.ExternalTOC}
		p, err := esgzref.Parse(b.Blob, b.ExternalTOC)
		if err != nil {
			panic(err)
		}
		n := int64(len(b.Blob))
		switch kind {
		case "gzip":
			bs.tocOff = p.TOCOffset
			bs.tocSec = b.Blob[p.TOCOffset : n-51]
			bs.footer = b.Blob[n-51:]
		case "zstd":
			bs.tocOff = p.TOCOffset - 8
			bs.tocSec = b.Blob[p.TOCOffset-8 : n-48]
			bs.footer = b.Blob[n-48:]
		case "external":
			bs.tocOff = n - 46
			bs.footer = b.Blob[n-46:]
		}
		bases[kind] = bs
	}
}

// ---------------------------------------------------------------------------------------
// byte-level cases

type BytesCase struct {
	Blob []byte `json:"blob"`
	Ext  []byte `json:"ext,omitempty"`
	Note string `json:"note,omitempty"`
}

var hostileU64 = []uint64{0, 1, 7, 8, 9, 40, 48, 51, 1 << 20, 1 << 31, 1 << 32, 1 << 40, 1 << 62, 1<<63 - 1, 1 << 63, 1<<64 - 1}

func genGzipFooterLike(t *rapid.T, realOff int64, blobLen int) []byte {
	offs := []string{
		fmt.Sprintf("%016x", realOff), fmt.Sprintf("%016x", realOff+1), fmt.Sprintf("%016x", realOff-1), "0000000000000000",
		fmt.Sprintf("%016x", blobLen), fmt.Sprintf("%016x", blobLen-51), fmt.Sprintf("%016x", blobLen-50), fmt.Sprintf("%016x", blobLen+100),
		"7fffffffffffffff", "ffffffffffffffff", "-000000000000001", "-7ffffffffffffff", "+000000000000010", "zzzzzzzzzzzzzzzz", "000000000000001 ",
	}
	sub := []byte(rapid.SampledFrom(offs).Draw(t, "hexoff") + rapid.SampledFrom([]string{"STARGZ", "STARGZ", "STARGZ", "stargz", "STARG", "STARGZEXTERNALTOC", ""}).Draw(t, "magic"))
	switch rapid.IntRange(0, 9).Draw(t, "subform") {
	case 0:
		sub = sub[:rapid.IntRange(0, len(sub)).Draw(t, "subcut")]
	case 1:
		sub = []byte("STARGZEXTERNALTOC")
	case 2:
		sub = rapid.SliceOfN(rapid.Byte(), 0, 30).Draw(t, "subraw")
	}
	f := esgzref.RawGzipFooter(sub)
	switch rapid.IntRange(0, 11).Draw(t, "gzform") {
	case 0: // XLEN smaller than the extra field actually present
		binary.LittleEndian.PutUint16(f[10:12], uint16(rapid.IntRange(0, 8).Draw(t, "xlen")))
	case 1: // no FEXTRA flag
		f[3] = 0
	case 2: // other flags (FNAME, FCOMMENT, FHCRC)
		f[3] = byte(rapid.SampledFrom([]int{4 | 8, 4 | 16, 4 | 2, 0xff, 8}).Draw(t, "flags"))
	case 3: // subfield ids
		f[12], f[13] = byte(rapid.SampledFrom([]int{'S', 'G', 'E', 0}).Draw(t, "si1")), byte(rapid.SampledFrom([]int{'S', 'G', 'E', 0}).Draw(t, "si2"))
	case 4: // subfield length
		binary.LittleEndian.PutUint16(f[14:16], uint16(rapid.SampledFrom([]int{0, 1, 16, 21, 22, 23, 17, 0xffff}).Draw(t, "slen")))
	case 5: // empty extra: XLEN=0 (gzip member with FEXTRA and no extra bytes)
		f = append([]byte{0x1f, 0x8b, 8, 4, 0, 0, 0, 0, 0, 255, 0, 0, 1, 0, 0, 0xff, 0xff}, make([]byte, 8)...)
	case 6: // extra of 1-3 bytes
		n := rapid.IntRange(1, 3).Draw(t, "tinyextra")
		f = append([]byte{0x1f, 0x8b, 8, 4, 0, 0, 0, 0, 0, 255, byte(n), 0}, append(make([]byte, n), append([]byte{1, 0, 0, 0xff, 0xff}, make([]byte, 8)...)...)...)
	case 7: // legacy 47 byte footer: extra is the bare 22 byte string
		s := []byte(rapid.SampledFrom(offs).Draw(t, "legoff") + "STARGZ")
		f = append([]byte{0x1f, 0x8b, 8, 4, 0, 0, 0, 0, 0, 255, byte(len(s)), 0}, append(s, append([]byte{1, 0, 0, 0xff, 0xff}, make([]byte, 8)...)...)...)
	}
	// pad / cut so that it sits exactly at one of the sizes the parsers look for
	switch rapid.IntRange(0, 5).Draw(t, "fit") {
	case 0:
		want := rapid.SampledFrom([]int{40, 46, 47, 51}).Draw(t, "fitsize")
		for len(f) < want {
			f = append(f, 0)
		}
		f = f[len(f)-want:]
	}
	return f
}

func genZstdFooterLike(t *rapid.T, realOff, realCLen, realULen uint64) []byte {
	pick := func(real uint64, label string) uint64 {
		if rapid.IntRange(0, 2).Draw(t, label+"real") == 0 {
			return real
		}
		return rapid.SampledFrom(append([]uint64{real + 1, real - 1, real + 8, real - 8}, hostileU64...)).Draw(t, label)
	}
	f := make([]byte, 40)
	binary.LittleEndian.PutUint64(f[0:], pick(realOff, "zoff"))
	binary.LittleEndian.PutUint64(f[8:], pick(realCLen, "zclen"))
	binary.LittleEndian.PutUint64(f[16:], pick(realULen, "zulen"))
	binary.LittleEndian.PutUint64(f[24:], uint64(rapid.SampledFrom([]int{1, 0, 2}).Draw(t, "ztype")))
	copy(f[32:], []byte{0x47, 0x6e, 0x55, 0x6c, 0x49, 0x6e, 0x55, 0x78})
	if rapid.IntRange(0, 9).Draw(t, "zmagic") == 0 {
		f[39] ^= 1
	}
	if rapid.Bool().Draw(t, "zskip") {
		f = append([]byte{0x50, 0x2a, 0x4d, 0x18, 40, 0, 0, 0}, f...)
	}
	return f
}

func genBytes(t *rapid.T) BytesCase {
	var c BytesCase
	mode := rapid.SampledFrom([]string{"raw", "raw-small", "compose", "compose", "compose", "flip"}).Draw(t, "mode")
	c.Note = mode
	switch mode {
	case "raw":
		c.Blob = rapid.SliceOfN(rapid.Byte(), 0, 300).Draw(t, "raw")
	case "raw-small":
		n := rapid.SampledFrom([]int{0, 1, 8, 39, 40, 41, 45, 46, 47, 48, 50, 51, 52, 97, 98}).Draw(t, "len")
		fill := rapid.SampledFrom([]string{"zero", "ff", "rand", "gzhdr"}).Draw(t, "fill")
		b := make([]byte, n)
		for i := range b {
			switch fill {
			case "ff":
				b[i] = 0xff
			case "rand":
				b[i] = rapid.Byte().Draw(t, "b")
			}
		}
		if fill == "gzhdr" && n >= 10 {
			copy(b, []byte{0x1f, 0x8b, 8, byte(rapid.SampledFrom([]int{0, 4, 8, 28}).Draw(t, "flg")), 0, 0, 0, 0, 0, 255})
			if n >= 12 {
				b[10] = byte(rapid.SampledFrom([]int{0, 1, 4, 21, 26, 200}).Draw(t, "xl"))
			}
		}
		c.Blob = b
	case "flip":
		bs := bases[rapid.SampledFrom([]string{"gzip", "zstd", "external"}).Draw(t, "base")]
		b := append([]byte(nil), bs.blob...)
		n := rapid.IntRange(1, 4).Draw(t, "nflips")
		for i := 0; i < n; i++ {
			// bias towards the tail (TOC + footer)
			var pos int
			if rapid.IntRange(0, 3).Draw(t, "where") > 0 {
				pos = len(b) - 1 - rapid.IntRange(0, min(len(b)-1, 120)).Draw(t, "tailpos")
			} else {
				pos = rapid.IntRange(0, len(b)-1).Draw(t, "pos")
			}
			b[pos] = rapid.Byte().Draw(t, "val")
		}
		if rapid.IntRange(0, 4).Draw(t, "cut") == 0 {
			b = b[:rapid.IntRange(0, len(b)).Draw(t, "cutat")]
		}
		c.Blob, c.Ext = b, bs.ext
		if bs.ext != nil && rapid.IntRange(0, 2).Draw(t, "extmut") == 0 {
			e := append([]byte(nil), bs.ext...)
			switch rapid.IntRange(0, 2).Draw(t, "extform") {
			case 0:
				e[rapid.IntRange(0, len(e)-1).Draw(t, "epos")] ^= byte(1 << rapid.IntRange(0, 7).Draw(t, "ebit"))
			case 1:
				e = e[:rapid.IntRange(0, len(e)).Draw(t, "ecut")]
			case 2:
				e = rapid.SliceOfN(rapid.Byte(), 0, 40).Draw(t, "eraw")
			}
			c.Ext = e
		}
	case "compose":
		kind := rapid.SampledFrom([]string{"gzip", "gzip", "zstd", "external"}).Draw(t, "base")
		bs := bases[kind]
		var prefix, middle []byte
		switch rapid.IntRange(0, 3).Draw(t, "prefix") {
		case 0, 1:
			prefix = bs.blob[:bs.tocOff]
		case 2:
			prefix = rapid.SliceOfN(rapid.Byte(), 0, 64).Draw(t, "rprefix")
		}
		switch rapid.IntRange(0, 5).Draw(t, "middle") {
		case 0, 1, 2:
			middle = bs.tocSec
		case 3:
			middle = rapid.SliceOfN(rapid.Byte(), 0, 64).Draw(t, "rmiddle")
		case 4:
			if len(bs.tocSec) > 0 {
				middle = bs.tocSec[:rapid.IntRange(0, len(bs.tocSec)).Draw(t, "mcut")]
			}
		}
		var footer []byte
		realOff := int64(len(prefix))
		if rapid.IntRange(0, 3).Draw(t, "zfooter") == 0 || kind == "zstd" {
			cl, ul := uint64(0), uint64(0)
			if len(bases["zstd"].footer) == 48 {
				cl = binary.LittleEndian.Uint64(bases["zstd"].footer[16:])
				ul = binary.LittleEndian.Uint64(bases["zstd"].footer[24:])
			}
			footer = genZstdFooterLike(t, uint64(realOff)+8, cl, ul)
		} else {
			footer = genGzipFooterLike(t, realOff, len(prefix)+len(middle)+51)
		}
		c.Blob = append(append(append([]byte{}, prefix...), middle...), footer...)
		c.Ext = bs.ext
		if kind == "external" && rapid.IntRange(0, 3).Draw(t, "extraw") == 0 {
			c.Ext = rapid.SliceOfN(rapid.Byte(), 0, 40).Draw(t, "eraw")
		}
	}
	return c
}

func runBytes(c BytesCase, ev *pbt.Ev) error {
	rc := consumeAll(c.Blob, c.Ext, true)
	ev.Class("mode-" + c.Note)
	ev.ClassIf(rc.Opened > 0, "accepted-by-a-constructor")
	ev.ClassIf(rc.Walked > 1, "tree-walked")
	// independent pre-classification: did the input carry one of the magic strings at the tail?
	k := esgzref.DetectKind(c.Blob)
	ev.ClassIf(k != "", "tail-has-footer-magic")
	ev.NTIf(k != "" || rc.Opened > 0)
	return nil
}

func TestProp_Bytes(t *testing.T) {
	pbt.Run(t, pbt.Options{Prop: "C04", Name: "Bytes", Quick: 12000, Thorough: 144000, Current: true, Timeout: 60 * time.Second,
		Rule: "rapid: byte strings offered as a blob: raw (0-300 bytes, and every interesting length around the footer sizes 40/46/47/51 filled with zero/ff/random/gzip-header bytes), valid gzip/zstd/external-TOC blobs with 1-4 bytes rewritten (biased to TOC+footer) or truncated, " +
			"and compositions payload|TOC section|footer where the footer is generated field by field (XLEN, flags, SI1/SI2, LEN, hex offset incl. >size, negative, signed, 2^63; zstd offset/lengths incl. 0, <8, 2^62, 2^63, 2^64-1; legacy footer); " +
			"every consumer is run: each ParseFooter, estargz.Open/OpenFooter/Unpack, memory and DB metadata readers with a full walk, file reads, fs/reader Cache + VerifyTOC + reads. oracle: returns (value|error): no panic, no fatal error, no hang (30 s watchdog, re-run alone). " +
			"non-trivial = the tail carries a footer magic (independent classifier) or a constructor accepted the blob",
	}, genBytes, runBytes)
}

// ---------------------------------------------------------------------------------------
// structure-level cases: syntactically valid TOC JSON with adversarial structure in a valid container

type TOCCase struct {
	Kind    string           `json:"kind"`
	Version int              `json:"version"`
	Entries []*esgzref.Entry `json:"entries"`
	Trailer string           `json:"trailer,omitempty"`
	RawJSON string           `json:"raw_json,omitempty"` // if set, used instead of marshalling Entries
	Capped  int              `json:"capped,omitempty"`   // entries rewritten to stay clear of the known allocation finding
}

var hostileI64 = []int64{0, 0, 1, 5, 16, 100, 1 << 20, 1 << 31, 1 << 32, 1 << 40, 1 << 62, 1<<63 - 1, -1, -16, -1 << 63}

func deepName(n int, comp string) string {
	return strings.TrimSuffix(strings.Repeat(comp+"/", n), "/")
}

func genTOCEntry(t *rapid.T, memberOffs []int64) *esgzref.Entry {
	names := []string{"", ".", "..", "/", "a", "a", "a/b", "a/b", "a/b/c", "./a", "a/", "a//b", "../x", "x", "y", "a/../a", "stargz.index.json", ".prefetch.landmark", ".no.prefetch.landmark", ".wh.a", ".wh..wh..opq", "a/.wh..wh..opq"}
	e := &esgzref.Entry{}
	e.Name = rapid.SampledFrom(names).Draw(t, "name")
	switch rapid.IntRange(0, 60).Draw(t, "deep") {
	case 0:
		// (the DB store creates parent directories in time cubic in the path depth: 10^4 components take
		// minutes.  That terminates, so it is not a hang; deeper chains are exercised by TestProp_DeepChain
		// against the memory store only.)
		e.Name = deepName(rapid.SampledFrom([]int{30, 80, 120}).Draw(t, "depth"), "d")
	case 1:
		e.Name = strings.Repeat("n", rapid.SampledFrom([]int{255, 256, 5000}).Draw(t, "namelen"))
	}
	e.Type = rapid.SampledFrom([]string{"reg", "reg", "reg", "dir", "dir", "symlink", "hardlink", "hardlink", "chunk", "chunk", "char", "block", "fifo", "", "socket"}).Draw(t, "type")
	if e.Type == "hardlink" || e.Type == "symlink" || rapid.IntRange(0, 9).Draw(t, "haslink") == 0 {
		e.LinkName = rapid.SampledFrom(names).Draw(t, "link")
	}
	off := func(label string) int64 {
		if len(memberOffs) > 0 && rapid.Bool().Draw(t, label+"valid") {
			return rapid.SampledFrom(memberOffs).Draw(t, label+"m")
		}
		return rapid.SampledFrom(hostileI64).Draw(t, label)
	}
	if e.Type == "reg" || e.Type == "chunk" || rapid.IntRange(0, 5).Draw(t, "numeric") == 0 {
		e.Size = rapid.SampledFrom(hostileI64).Draw(t, "size")
		e.Offset = off("offset")
		if rapid.IntRange(0, 1).Draw(t, "chunky") == 0 {
			e.ChunkOffset = rapid.SampledFrom(hostileI64).Draw(t, "chunkOffset")
			e.ChunkSize = rapid.SampledFrom(hostileI64).Draw(t, "chunkSize")
		}
		if rapid.IntRange(0, 3).Draw(t, "inner") == 0 {
			e.InnerOffset = rapid.SampledFrom(hostileI64).Draw(t, "innerOffset")
		}
		dg := []string{"", "sha256:e3b0c44298fc1c149afbf4c8996fb92427ae41e4649b934ca495991b7852b855", "sha256:zz", "md5:d41d8cd98f00b204e9800998ecf8427e", "sha256:", "notadigest"}
		e.Digest = rapid.SampledFrom(dg).Draw(t, "digest")
		e.ChunkDigest = rapid.SampledFrom(dg).Draw(t, "chunkDigest")
	}
	e.Mode = rapid.SampledFrom([]int64{0, 0o644, 0o755, 0o7777, -1, 1 << 40}).Draw(t, "mode")
	e.UID = rapid.SampledFrom([]int{0, 1000, -1, 1 << 31}).Draw(t, "uid")
	e.ModTime = rapid.SampledFrom([]string{"", "2020-01-01T00:00:00Z", "not a time", "0000-00-00T00:00:00Z", "9999-12-31T23:59:59Z"}).Draw(t, "modtime")
	e.DevMajor = rapid.SampledFrom([]int{0, 1, -1, 1 << 30}).Draw(t, "devmajor")
	if rapid.IntRange(0, 5).Draw(t, "xattr") == 0 {
		e.Xattrs = map[string][]byte{rapid.SampledFrom([]string{"", "user.a", "trusted.overlay.opaque"}).Draw(t, "xk"): []byte(rapid.SampledFrom([]string{"", "y", "v"}).Draw(t, "xv"))}
	}
	return e
}

// payload members the offsets can point to
var (
	gzPayload, zsPayload   []byte
	gzMemberOffs, zsMOffs  []int64
	payloadChunk           = []byte("0123456789abcdef")
	payloadChunkDigestOnce string
)

func init() {
	for i := 0; i < 4; i++ {
		gzMemberOffs = append(gzMemberOffs, int64(len(gzPayload)))
		gzPayload = append(gzPayload, esgzref.GzipMember(payloadChunk)...)
		zsMOffs = append(zsMOffs, int64(len(zsPayload)))
		zsPayload = append(zsPayload, esgzref.ZstdFrame(payloadChunk)...)
	}
	payloadChunkDigestOnce = esgzref.Sha256(payloadChunk)
}

func genTOC(t *rapid.T) TOCCase {
	c := TOCCase{Kind: rapid.SampledFrom([]string{"gzip", "gzip", "zstd", "external"}).Draw(t, "kind"), Version: rapid.SampledFrom([]int{1, 1, 0, 2, -1}).Draw(t, "version")}
	offs := gzMemberOffs
	if c.Kind == "zstd" {
		offs = zsMOffs
	}
	switch rapid.IntRange(0, 40).Draw(t, "rawjson") {
	case 0:
		c.RawJSON = rapid.SampledFrom([]string{"", "null", "[]", "{}", `{"version":1}`, `{"entries":null}`, `{"entries":[null]}`, `{"entries":[{}]}`, `{"version":"x","entries":{}}`, `{"entries":[1,2]}`,
			`{"version":1,"entries":[{"name":"a","type":"reg","size":1e400}]}`, `{"version":1,"entries":[{"name":"a","type":"reg","xattrs":{"k":"!!notbase64"}}]}`,
			strings.Repeat("[", 10000), `{"version":1,"entries":[` + strings.Repeat(`{"name":"x","type":"dir"},`, 3) + `{"name":"y","type":"dir"}]} trailing garbage`}).Draw(t, "raw")
		return c
	}
	n := rapid.IntRange(0, 10).Draw(t, "nentries")
	for i := 0; i < n; i++ {
		e := genTOCEntry(t, offs)
		if rapid.IntRange(0, 3).Draw(t, "plausible") == 0 && (e.Type == "reg") {
			// a readable file: first member, right digest
			e.Size, e.Offset, e.ChunkOffset, e.ChunkSize, e.InnerOffset = int64(len(payloadChunk)), offs[0], 0, 0, 0
			e.Digest, e.ChunkDigest = payloadChunkDigestOnce, payloadChunkDigestOnce
		}
		c.Entries = append(c.Entries, e)
	}
	c.Trailer = rapid.SampledFrom([]string{"", "", "", " ", "\n\n", "garbage", "{}"}).Draw(t, "trailer")
	if pbt.Known("C04-alloc-by-declared-chunk-size") {
		c.Capped = capChunkLengths(c.Entries)
	}
	return c
}

// maxDeclaredChunk is the largest chunk length the generator declares while the known finding
// "allocation by declared chunk size" is open: the readers allocate a buffer of the declared chunk
// length before looking at the data, so 2^31..2^63 either exhaust memory or panic in makeslice/Grow.
const maxDeclaredChunk = 1 << 20

// capChunkLengths rewrites declared sizes / chunk sizes above maxDeclaredChunk (every chunk length the stores
// derive is bounded by one of them) and returns how many fields were rewritten (excluded by construction).
func capChunkLengths(es []*esgzref.Entry) int {
	n := 0
	clamp := func(v *int64) {
		if *v > maxDeclaredChunk {
			*v = maxDeclaredChunk
			n++
		} else if *v < -maxDeclaredChunk { // differences of two fields are derived chunk lengths: keep them from overflowing
			*v = -maxDeclaredChunk
			n++
		}
	}
	for _, e := range es {
		if e == nil {
			continue
		}
		clamp(&e.Size)
		clamp(&e.ChunkSize)
		clamp(&e.ChunkOffset)
	}
	return n
}

func (c TOCCase) blob() (blob, ext []byte) {
	var js []byte
	if c.RawJSON != "" || (len(c.Entries) == 0 && c.Version == 0 && c.Kind == "" ) {
		js = []byte(c.RawJSON)
	} else {
		js, _ = json.Marshal(esgzref.TOC{Version: c.Version, Entries: c.Entries})
	}
	payload := gzPayload
	if c.Kind == "zstd" {
		payload = zsPayload
	}
	return esgzref.Wrap(c.Kind, payload, js, []byte(c.Trailer))
}

func runTOC(c TOCCase, ev *pbt.Ev) error {
	blob, ext := c.blob()
	rc := consumeAll(blob, ext, true)
	ev.Class("kind-" + c.Kind)
	ev.ClassIf(rc.Opened > 0, "accepted-by-a-constructor")
	ev.ClassIf(rc.Walked > 1, "tree-walked")
	ev.ClassIf(rc.FilesRead > 0, "files-read")
	hl, ch := false, false
	for _, e := range c.Entries {
		if e != nil && e.Type == "hardlink" {
			hl = true
		}
		if e != nil && e.Type == "chunk" {
			ch = true
		}
	}
	for i := 0; i < c.Capped; i++ {
		ev.Exclude("C04-alloc-by-declared-chunk-size")
	}
	ev.ClassIf(hl, "has-hardlink")
	ev.ClassIf(ch, "has-chunk")
	// reached TOC interpretation by construction (valid container); non-trivial = interpreted with entries
	ev.NTIf(len(c.Entries) > 0 || c.RawJSON != "")
	return nil
}

func TestProp_TOC(t *testing.T) {
	pbt.Run(t, pbt.Options{Prop: "C04", Name: "TOC", Quick: 12000, Thorough: 144000, Current: true, Timeout: 60 * time.Second,
		Floors: map[string]float64{"nontrivial": 0.5},
		Rule: "rapid: syntactically valid TOC JSON from an adversarial grammar (0-10 entries; names incl. empty . .. / a//b ../x, 5000-20000 component chains, reserved names; types incl. chunk-first, unknown, empty; hardlinks to self / each other / own parent / missing; " +
			"size/offset/chunkOffset/chunkSize/innerOffset from {0,1,16,2^20..2^63-1,-1,-2^63} or real member offsets; bad or missing digests; hostile mode/uid/modtime/dev; odd raw JSON documents) wrapped in a valid gzip / zstd:chunked / external-TOC container over 4 real compressed members; " +
			"consumers and oracle as Bytes. non-trivial = the TOC has entries or is a raw JSON document (every case reaches TOC interpretation by construction)",
	}, genTOC, runTOC)
}
