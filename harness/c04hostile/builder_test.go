package c04hostile

import (
	"archive/tar"
	"bytes"
	"io"
	"testing"
	"time"

	"github.com/containerd/stargz-snapshotter/estargz"
	"pgregory.net/rapid"
	"verifharness/lib/esgzbuild"
	"verifharness/lib/pbt"
)

type BEntry struct {
	Name string `json:"name"`
	Type byte   `json:"type"`
	Link string `json:"link,omitempty"`
	Size int64  `json:"size,omitempty"`
	Data int    `json:"data,omitempty"` // bytes of payload actually written
}

type BuilderCase struct {
	Mode        string   `json:"mode"` // raw | entries
	Raw         []byte   `json:"raw,omitempty"`
	Entries     []BEntry `json:"entries,omitempty"`
	Cut         int      `json:"cut,omitempty"`  // truncate the serialised tar by this many bytes
	Wrap        string   `json:"wrap,omitempty"` // plain | gzip | gzip-cut | zstd | zstd-cut
	Prioritized []string `json:"prioritized,omitempty"`
	Opts        esgzbuild.Opts
}

func genBuilder(t *rapid.T) BuilderCase {
	c := BuilderCase{Mode: rapid.SampledFrom([]string{"raw", "entries", "entries", "entries"}).Draw(t, "mode")}
	c.Opts = esgzbuild.GenOpts(t, []string{"gzip", "zstd", "external"})
	names := []string{"a", "b", "c", "a/b", "d/", "d/e", "", ".", "..", "/", "./a"}
	if c.Mode == "raw" {
		c.Raw = rapid.SliceOfN(rapid.Byte(), 0, 1600).Draw(t, "raw")
		if rapid.Bool().Draw(t, "magic") && len(c.Raw) > 10 {
			copy(c.Raw, rapid.SampledFrom([][]byte{{0x1f, 0x8b, 8, 0}, {0x28, 0xb5, 0x2f, 0xfd}, {0x1f, 0x8b, 8, 4, 0, 0, 0, 0, 0, 255, 0xff, 0xff}}).Draw(t, "magicbytes"))
		}
	} else {
		n := rapid.IntRange(0, 7).Draw(t, "n")
		for i := 0; i < n; i++ {
			e := BEntry{Name: rapid.SampledFrom(names).Draw(t, "name")}
			e.Type = rapid.SampledFrom([]byte{tar.TypeReg, tar.TypeReg, tar.TypeDir, tar.TypeLink, tar.TypeLink, tar.TypeSymlink, tar.TypeChar, tar.TypeFifo, tar.TypeXGlobalHeader, tar.TypeGNUSparse, 'Z', 0}).Draw(t, "type")
			if e.Type == tar.TypeLink || e.Type == tar.TypeSymlink {
				e.Link = rapid.SampledFrom(names).Draw(t, "link")
			}
			if e.Type == tar.TypeReg {
				e.Size = int64(rapid.SampledFrom([]int{0, 1, 10, 100, 1 << 20}).Draw(t, "size"))
				e.Data = rapid.SampledFrom([]int{0, 1, 10, 100}).Draw(t, "data")
			}
			c.Entries = append(c.Entries, e)
		}
		c.Cut = rapid.SampledFrom([]int{0, 0, 0, 1, 511, 512, 1024, 1500}).Draw(t, "cut")
	}
	c.Wrap = rapid.SampledFrom([]string{"plain", "plain", "gzip", "gzip-cut", "zstd", "zstd-cut"}).Draw(t, "wrap")
	c.Prioritized = rapid.SliceOfN(rapid.SampledFrom(names), 0, 3).Draw(t, "prio")
	return c
}

func (c BuilderCase) input() []byte {
	b := c.Raw
	if c.Mode == "entries" {
		var buf bytes.Buffer
		tw := tar.NewWriter(&buf)
		for _, e := range c.Entries {
			h := &tar.Header{Name: e.Name, Typeflag: e.Type, Linkname: e.Link, Size: e.Size, Mode: 0o644}
			if err := tw.WriteHeader(h); err != nil {
				continue
			}
			if e.Type == tar.TypeReg {
				n := int64(e.Data)
				if n > e.Size {
					n = e.Size
				}
				tw.Write(bytes.Repeat([]byte{'z'}, int(n)))
			}
		}
		tw.Flush() // deliberately not Close(): short payloads stay short
		b = buf.Bytes()
		if c.Cut > 0 && c.Cut < len(b) {
			b = b[:len(b)-c.Cut]
		}
	}
	switch c.Wrap {
	case "gzip", "gzip-cut":
		b = esgzbuild.GzipBytes(b, 1)
		if c.Wrap == "gzip-cut" && len(b) > 6 {
			b = b[:len(b)-5]
		}
	case "zstd", "zstd-cut":
		b = esgzbuild.ZstdBytes(b)
		if c.Wrap == "zstd-cut" && len(b) > 6 {
			b = b[:len(b)-3]
		}
	}
	return b
}

func runBuilder(c BuilderCase, ev *pbt.Ev) error {
	in := c.input()
	o := c.Opts
	o.Prioritized = c.Prioritized
	o.AllowMissing = len(c.Prioritized)%2 == 0
	res, err := esgzbuild.Build(in, o)
	ev.ClassIf(err == nil, "build-accepted")
	ev.ClassIf(err != nil, "build-refused")
	if err == nil {
		// what was built must at least be openable without a crash
		consumeAll(res.Blob, res.ExternalTOC, false)
	}
	esgzbuild.Write(in, o, false)
	esgzbuild.Write(in, o, true)
	for _, d := range []estargz.Decompressor{new(estargz.GzipDecompressor), new(estargz.LegacyGzipDecompressor)} {
		if rc, err := estargz.Unpack(io.NewSectionReader(bytes.NewReader(in), 0, int64(len(in))), d); err == nil {
			io.Copy(io.Discard, io.LimitReader(rc, 1<<20))
			rc.Close()
		}
	}
	hl := false
	for _, e := range c.Entries {
		if e.Type == tar.TypeLink {
			hl = true
		}
	}
	ev.ClassIf(hl && len(c.Prioritized) > 0, "hardlinks-and-prioritized")
	ev.Class("mode-" + c.Mode)
	ev.NTIf(c.Mode == "entries" && len(c.Entries) > 0)
	return nil
}

func TestProp_Builder(t *testing.T) {
	pbt.Run(t, pbt.Options{Prop: "C04", Name: "Builder", Quick: 6000, Thorough: 72000, Current: true, Timeout: 60 * time.Second,
		Rule: "rapid: inputs handed to estargz.Build / Writer.AppendTar / AppendTarLossLess / Unpack: raw bytes (optionally starting with gzip / zstd magic), and tar archives written entry by entry with hostile structure (hardlinks to themselves / each other / directories / missing names, names '' . .. /, " +
			"unsupported type flags, declared size larger than the payload, archive cut 1-1500 bytes short), plain or inside complete / truncated gzip or zstd, with a prioritized list drawn from the same names; oracle: (value|error), no panic / fatal error / hang; a blob that was built is fed to the readers. non-trivial = structured archive with entries",
	}, genBuilder, runBuilder)
}
