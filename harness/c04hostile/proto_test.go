package c04hostile

import (
	"bytes"
	"context"
	"fmt"
	"io"
	"net/http"
	"strings"
	"testing"
	"time"

	"github.com/containerd/containerd/v2/pkg/reference"
	"github.com/containerd/stargz-snapshotter/cache"
	"github.com/containerd/stargz-snapshotter/fs/config"
	"github.com/containerd/stargz-snapshotter/fs/remote"
	digest "github.com/opencontainers/go-digest"
	ocispec "github.com/opencontainers/image-spec/specs-go/v1"
	"pgregory.net/rapid"
	"verifharness/lib/memreg"
	"verifharness/lib/pbt"
	"verifharness/lib/tarmodel"
)

// Resp describes one scripted reply (plain value).
type Resp struct {
	Honest       bool     `json:"honest,omitempty"`
	Status       int      `json:"status,omitempty"`
	ContentType  string   `json:"content_type,omitempty"`
	ContentRange string   `json:"content_range,omitempty"`
	ContentLen   string   `json:"content_length,omitempty"`
	Location     string   `json:"location,omitempty"`
	BodyLen      int      `json:"body_len,omitempty"`
	Parts        []string `json:"parts,omitempty"` // Content-Range header of each multipart part ("" = header missing)
	PartLen      int      `json:"part_len,omitempty"`
	Stall        bool     `json:"stall,omitempty"`
	ConnErr      bool     `json:"conn_err,omitempty"`
}

type Read struct {
	Op  string `json:"op"` // read | cache | check | refresh
	Off int64  `json:"off,omitempty"`
	Len int    `json:"len,omitempty"`
}

type ProtoCase struct {
	Size      int    `json:"size"`
	ChunkSize int64  `json:"chunk_size"`
	Script    []Resp `json:"script"` // consumed one per request, then honest
	Ops       []Read `json:"ops"`
	// PrefetchChunk > ChunkSize makes Cache split its range into pieces fetched in parallel (prefetch_chunk_size)
	PrefetchChunk int64 `json:"prefetch_chunk,omitempty"`
}

func genResp(t *rapid.T, size int) Resp {
	if rapid.IntRange(0, 3).Draw(t, "honest") == 0 {
		return Resp{Honest: true}
	}
	r := Resp{Status: rapid.SampledFrom([]int{200, 206, 206, 206, 301, 307, 400, 401, 403, 404, 416, 500, 503, 0, 999}).Draw(t, "status")}
	if rapid.IntRange(0, 19).Draw(t, "special") == 0 {
		if rapid.Bool().Draw(t, "stall") {
			return Resp{Stall: true}
		}
		return Resp{ConnErr: true}
	}
	crs := []string{"", "bytes 0-1/" + fmt.Sprint(size), "bytes 0-" + fmt.Sprint(size-1) + "/" + fmt.Sprint(size), "bytes 5-2/10", "bytes 3-9/10", "bytes 0-99999999/100000000",
		"bytes */10", "bytes 0-1/*", "garbage", "bytes 99999999999999999999-1/5", "bytes 0-9223372036854775807/9223372036854775807", "bytes 1-2/3", "bytes 0-0/0", "bytes=0-1/4"}
	r.ContentRange = rapid.SampledFrom(crs).Draw(t, "cr")
	r.ContentType = rapid.SampledFrom([]string{"", "application/octet-stream", "multipart/byteranges; boundary=B", "multipart/byteranges", "multipart/", "multipart/byteranges; boundary=", ";;;", "text/plain; charset"}).Draw(t, "ct")
	r.ContentLen = rapid.SampledFrom([]string{"", "0", "1", fmt.Sprint(size), "-5", "abc", "9223372036854775807", "99999999999999999999"}).Draw(t, "cl")
	r.Location = rapid.SampledFrom([]string{"", "", "https://other.example/v2/x/blobs/y", "::not a url", "/relative"}).Draw(t, "loc")
	r.BodyLen = rapid.SampledFrom([]int{0, 1, 2, 7, size, size + 5, 300}).Draw(t, "bodylen")
	if strings.HasPrefix(r.ContentType, "multipart/byteranges; boundary=B") {
		n := rapid.IntRange(0, 4).Draw(t, "nparts")
		for i := 0; i < n; i++ {
			if i > 0 && rapid.IntRange(0, 2).Draw(t, "samepart") == 0 {
				r.Parts = append(r.Parts, r.Parts[i-1]) // the same part twice
				continue
			}
			r.Parts = append(r.Parts, rapid.SampledFrom(crs).Draw(t, "partcr"))
		}
		r.PartLen = rapid.SampledFrom([]int{0, 1, 8, 64}).Draw(t, "partlen")
	}
	return r
}

func genProto(t *rapid.T) ProtoCase {
	c := ProtoCase{Size: rapid.SampledFrom([]int{0, 1, 10, 64, 100, 257}).Draw(t, "size"), ChunkSize: int64(rapid.SampledFrom([]int{1, 8, 16, 64, 1000}).Draw(t, "chunk"))}
	size := c.Size
	c.Script = rapid.SliceOfN(rapid.Custom(func(t *rapid.T) Resp { return genResp(t, size) }), 0, 8).Draw(t, "script")
	c.Ops = rapid.SliceOfN(rapid.Custom(func(t *rapid.T) Read {
		return Read{Op: rapid.SampledFrom([]string{"read", "read", "read", "cache", "check", "refresh"}).Draw(t, "op"),
			Off: int64(rapid.IntRange(0, size+20).Draw(t, "off")), Len: rapid.IntRange(0, size+20).Draw(t, "len")}
	}), 1, 6).Draw(t, "ops")
	if rapid.IntRange(0, 3).Draw(t, "pfchunk") == 0 {
		c.PrefetchChunk = c.ChunkSize * int64(rapid.SampledFrom([]int{2, 3, 10}).Draw(t, "pfmult"))
	}
	if rapid.IntRange(0, 4).Draw(t, "hugecache") == 0 {
		// the size to cache is the prefetch landmark's offset, i.e. a number from the TOC (the blob's own size is
		// what an honest registry says: a layer whose size probe lies does not get as far as prefetching)
		c.Script = append([]Resp{{Honest: true}, {Honest: true}, {Honest: true}}, c.Script...)
		c.Ops = append(c.Ops, Read{Op: "cache", Off: 0, Len: rapid.SampledFrom([]int{1 << 40, 1 << 62, 1<<63 - 1}).Draw(t, "hugelen")})
	}
	return c
}

func (r Resp) build(req *http.Request, blob []byte) (*http.Response, error) {
	if r.ConnErr {
		return nil, fmt.Errorf("scripted connection error")
	}
	if r.Stall {
		<-req.Context().Done()
		return nil, req.Context().Err()
	}
	var body []byte
	h := http.Header{}
	if len(r.Parts) > 0 || strings.HasPrefix(r.ContentType, "multipart/byteranges; boundary=B") {
		var b bytes.Buffer
		for _, p := range r.Parts {
			b.WriteString("\r\n--B\r\n")
			if p != "" {
				b.WriteString("Content-Range: " + p + "\r\n")
			}
			b.WriteString("\r\n")
			b.Write(bytes.Repeat([]byte{'x'}, r.PartLen))
		}
		b.WriteString("\r\n--B--\r\n")
		body = b.Bytes()
	} else {
		body = bytes.Repeat([]byte{'y'}, r.BodyLen)
		if r.BodyLen <= len(blob) {
			body = append([]byte(nil), blob[:r.BodyLen]...)
		}
	}
	if r.ContentType != "" {
		h.Set("Content-Type", r.ContentType)
	}
	if r.ContentRange != "" {
		h.Set("Content-Range", r.ContentRange)
	}
	if r.ContentLen != "" {
		h.Set("Content-Length", r.ContentLen)
	}
	if r.Location != "" {
		h.Set("Location", r.Location)
	}
	return &http.Response{StatusCode: r.Status, Status: fmt.Sprintf("%d X", r.Status), Proto: "HTTP/1.1", ProtoMajor: 1, ProtoMinor: 1,
		Header: h, Body: io.NopCloser(bytes.NewReader(body)), Request: req}, nil
}

func runProto(c ProtoCase, ev *pbt.Ev) error {
	blob := tarmodel.Content(77, c.Size)
	dgst := digest.FromBytes(blob)
	reg := memreg.New()
	reg.AddBlob(dgst.String(), blob)
	i := 0
	hostile := 0
	reg.Decide = func(q *memreg.Req) memreg.Action {
		if q.Seq < len(c.Script) && !c.Script[q.Seq].Honest {
			r := c.Script[q.Seq]
			hostile++
			return memreg.Action{Kind: "raw", Raw: r.build}
		}
		i++
		return memreg.Action{}
	}
	res := remote.NewResolver(config.BlobConfig{ChunkSize: c.ChunkSize, PrefetchChunkSize: c.PrefetchChunk, FetchTimeoutSec: 1, ValidInterval: 1, CheckAlways: true}, nil)
	ref, _ := reference.Parse("reg.example/repo/img:latest")
	desc := ocispec.Descriptor{Digest: dgst, Size: int64(len(blob)), MediaType: ocispec.MediaTypeImageLayerGzip}
	ctx, cancel := context.WithTimeout(context.Background(), 20*time.Second)
	defer cancel()
	b, err := res.Resolve(ctx, reg.Hosts(), ref, desc, cache.NewMemoryCache())
	if err != nil {
		ev.Class("resolve-refused")
		ev.NTIf(hostile > 0)
		return nil
	}
	defer b.Close()
	ev.Class("resolved")
	for _, op := range c.Ops {
		switch op.Op {
		case "read":
			p := make([]byte, op.Len)
			b.ReadAt(p, op.Off)
		case "cache":
			b.Cache(op.Off, int64(op.Len))
		case "check":
			b.Check()
		case "refresh":
			b.Refresh(ctx, reg.Hosts(), ref, desc)
		}
		b.FetchedSize()
		b.Size()
	}
	ev.ClassIf(hostile > 0, "hostile-replies")
	ev.NTIf(hostile > 0)
	return nil
}

func TestProp_Proto(t *testing.T) {
	pbt.Run(t, pbt.Options{Prop: "C04", Name: "Proto", Quick: 4000, Thorough: 48000, Current: true, Timeout: 60 * time.Second,
		Rule: "rapid: a scripted registry answers each of the first 0-8 HTTP requests of Resolve / ReadAt / Cache / Check / Refresh with a reply drawn from a hostile grammar: any status, Content-Range unparsable / begin>end / beyond size / unaligned / overflowing int64, multipart bodies with missing, duplicated, " +
			"short or header-less parts and broken boundaries, wrong or missing Content-Length, short bodies, 3xx without or with a bad Location, connection errors and stalls; oracle: every call returns (value|error), no panic / fatal error / hang. non-trivial = at least one hostile reply was served",
	}, genProto, runProto)
}
