package c04hostile

import (
	"bytes"
	"fmt"
	"io"

	"github.com/containerd/stargz-snapshotter/cache"
	"github.com/containerd/stargz-snapshotter/estargz"
	"github.com/containerd/stargz-snapshotter/estargz/externaltoc"
	"github.com/containerd/stargz-snapshotter/estargz/zstdchunked"
	"github.com/containerd/stargz-snapshotter/fs/reader"
	"github.com/containerd/stargz-snapshotter/metadata"
	digest "github.com/opencontainers/go-digest"
	"verifharness/lib/stores"
)

// Reach counts how deep an input got (independent pre-classification is done by the generators;
// these flags are set by the consumers when a stage succeeded).
type Reach struct {
	Opened     int // constructors that accepted the blob
	Walked     int // nodes visited
	FilesRead  int
	CacheWalks int
}

func provide(ext []byte) func() ([]byte, error) {
	return func() ([]byte, error) {
		if ext == nil {
			return nil, fmt.Errorf("no external TOC")
		}
		return ext, nil
	}
}

// consumeAll feeds blob to every consumer of untrusted layer bytes.  Errors are fine; panics
// propagate to the caller (pbt turns them into violations), fatal errors kill the process.
func consumeAll(blob, ext []byte, deep bool) Reach {
	var rc Reach
	sr := func() *io.SectionReader { return io.NewSectionReader(bytes.NewReader(blob), 0, int64(len(blob))) }

	// 1. each decompressor's footer parser on the tail bytes a reader would hand it
	decs := []estargz.Decompressor{new(estargz.GzipDecompressor), new(estargz.LegacyGzipDecompressor), new(zstdchunked.Decompressor), externaltoc.NewGzipDecompressor(provide(ext))}
	for _, d := range decs {
		fs := d.FooterSize()
		if int64(len(blob)) >= fs {
			d.ParseFooter(blob[int64(len(blob))-fs:])
		}
	}
	// 2. estargz.Open with the additional decompressors the daemon configures
	if r, err := estargz.Open(sr(), estargz.WithDecompressors(new(zstdchunked.Decompressor), externaltoc.NewGzipDecompressor(provide(ext)))); err == nil {
		rc.Opened++
		consumeEstargzReader(r, &rc, deep)
	}
	estargz.OpenFooter(sr())
	// 3. Unpack with each decompressor
	for _, d := range decs {
		if rcl, err := estargz.Unpack(sr(), d); err == nil {
			io.Copy(io.Discard, io.LimitReader(rcl, 1<<20))
			rcl.Close()
		}
	}
	// 4. both metadata stores + the filesystem reader on top
	for _, kind := range []string{"memory", "db"} {
		m, err := stores.Open(kind, blob, ext)
		if err != nil {
			continue
		}
		rc.Opened++
		consumeMetadata(m, &rc, deep)
		m.Close()
	}
	return rc
}

func consumeEstargzReader(r *estargz.Reader, rc *Reach, deep bool) {
	r.TOCDigest()
	if v, err := r.VerifyTOC(r.TOCDigest()); err == nil {
		if root, ok := r.Lookup(""); ok {
			n := 0
			var walk func(e *estargz.TOCEntry, depth int)
			walk = func(e *estargz.TOCEntry, depth int) {
				if depth > 64 || n > 5000 {
					return
				}
				n++
				v.Verifier(e)
				e.Stat()
				if e.Type == "reg" {
					if fsr, err := r.OpenFile(e.Name); err == nil {
						buf := make([]byte, 16)
						fsr.ReadAt(buf, 0)
						fsr.ReadAt(buf, fsr.Size()-1)
						r.ChunkEntryForOffset(e.Name, 0)
						r.ChunkEntryForOffset(e.Name, e.Size)
						rc.FilesRead++
					}
				}
				e.ForeachChild(func(_ string, c *estargz.TOCEntry) bool {
					walk(c, depth+1)
					return n <= 5000
				})
			}
			walk(root, 0)
			rc.Walked += n
		}
	}
	r.Verifiers()
}

func consumeMetadata(m metadata.Reader, rc *Reach, deep bool) {
	m.TOCDigest()
	var files []uint32
	n, _, err := stores.Walk(m, stores.WalkLimits{MaxDepth: 40, MaxNodes: 3000}, func(ni stores.NodeInfo) error {
		if ni.Attr.Mode.IsRegular() && len(files) < 40 {
			files = append(files, ni.ID)
		}
		m.GetOffset(ni.ID)
		return nil
	})
	rc.Walked += n
	_ = err
	for _, id := range files {
		f, err := m.OpenFile(id)
		if err != nil {
			continue
		}
		buf := make([]byte, 24)
		for _, off := range []int64{0, 1, 7, 1 << 20} {
			f.ChunkEntryForOffset(off)
			f.ReadAt(buf, off)
		}
		rc.FilesRead++
	}
	if !deep {
		return
	}
	// the filesystem reader: prefetch walk + on-demand reads, verified and unverified
	vr, err := reader.NewReader(nopCloseReader{m}, cache.NewMemoryCache(), digest.FromString("layer"))
	if err != nil {
		return
	}
	vr.Cache()
	rc.CacheWalks++
	var rd reader.Reader
	if r, err := vr.VerifyTOC(m.TOCDigest()); err == nil {
		rd = r
	} else {
		rd = vr.SkipVerify()
	}
	for _, id := range files {
		ra, err := rd.OpenFile(id)
		if err != nil {
			continue
		}
		buf := make([]byte, 24)
		for _, off := range []int64{0, 3, 1 << 20} {
			ra.ReadAt(buf, off)
		}
	}
}

// nopCloseReader keeps the metadata reader open when the filesystem reader is closed.
type nopCloseReader struct{ metadata.Reader }

func (nopCloseReader) Close() error { return nil }
