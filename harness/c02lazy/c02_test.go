// C02 — lazily served files and metadata equal the source tar under any access history.
package c02lazy

import (
	"archive/tar"
	"bytes"
	"fmt"
	"sort"
	"strings"
	"sync"
	"syscall"
	"testing"
	"time"

	"github.com/containerd/stargz-snapshotter/fs/layer"
	fusefs "github.com/hanwen/go-fuse/v2/fs"
	"github.com/hanwen/go-fuse/v2/fuse"
	digest "github.com/opencontainers/go-digest"
	ocispec "github.com/opencontainers/image-spec/specs-go/v1"
	"golang.org/x/sys/unix"
	"pgregory.net/rapid"
	"verifharness/lib/esgzbuild"
	"verifharness/lib/fullstack"
	"verifharness/lib/fusedrive"
	"verifharness/lib/pbt"
	"verifharness/lib/tarmodel"
)

type Step struct {
	Op   string `json:"op"` // lookup readdir getattr readlink xattrs read prefetch bgfetch reresolve
	Path int    `json:"path,omitempty"`
	Off  int    `json:"off,omitempty"`
	Len  int    `json:"len,omitempty"`
	Miss bool   `json:"miss,omitempty"` // look up a name that does not exist below Path
}

type Case struct {
	Archive tarmodel.Archive `json:"archive"`
	Opts    esgzbuild.Opts   `json:"opts"`
	Cfg     fullstack.Config `json:"config"`
	Memo    bool             `json:"memo"`
	Steps   []Step           `json:"steps"`
	Readers [][]Step         `json:"readers,omitempty"` // concurrent variant
}

func genStep(t *rapid.T, cs int) Step {
	s := Step{Op: rapid.SampledFrom([]string{"lookup", "readdir", "getattr", "readlink", "xattrs", "read", "read", "read", "read", "prefetch", "bgfetch", "reresolve"}).Draw(t, "op")}
	s.Path = rapid.IntRange(0, 40).Draw(t, "path")
	if s.Op == "read" {
		s.Off = rapid.SampledFrom([]int{0, 0, 1, cs - 1, cs, cs + 1, 2 * cs, 2*cs + 1, 3 * cs, 3*cs + 2, 5}).Draw(t, "off")
		if s.Off < 0 {
			s.Off = 0
		}
		s.Len = rapid.SampledFrom([]int{0, 1, 2, cs, cs + 1, 2*cs + 1, 4 * cs, 1000}).Draw(t, "len")
	}
	if s.Op == "lookup" {
		s.Miss = rapid.IntRange(0, 4).Draw(t, "miss") == 0
	}
	if s.Op == "prefetch" {
		s.Len = rapid.SampledFrom([]int{0, 100, 100000}).Draw(t, "psize")
	}
	return s
}

func gen(t *rapid.T) Case {
	var c Case
	c.Opts = esgzbuild.GenOpts(t, []string{"gzip", "gzip", "zstd", "external"})
	cs := c.Opts.ChunkSize
	if cs == 0 {
		cs = 64
	}
	c.Archive = tarmodel.Gen(t, tarmodel.GenOpts{MaxEntries: 14, ChunkSize: cs, Hardlinks: true, Devices: true, Dups: true, Spellings: true, Xattrs: true, RootEntry: true, BigIDs: true, ManyChunks: true})
	var names []string
	for _, e := range c.Archive.Entries {
		if tarmodel.Clean(e.Name) != "" {
			names = append(names, e.Name)
		}
	}
	if len(names) > 0 && rapid.Bool().Draw(t, "prio") {
		c.Opts.Prioritized = rapid.SliceOfN(rapid.SampledFrom(names), 1, 3).Draw(t, "prioritized")
	}
	c.Cfg = fullstack.GenConfig(t)
	c.Memo = rapid.Bool().Draw(t, "memo")
	c.Steps = rapid.SliceOfN(rapid.Custom(func(t *rapid.T) Step { return genStep(t, cs) }), 1, 25).Draw(t, "steps")
	return c
}

func genConc(t *rapid.T) Case {
	c := gen(t)
	cs := c.Opts.ChunkSize
	if cs == 0 {
		cs = 64
	}
	n := rapid.IntRange(2, 4).Draw(t, "readers")
	for i := 0; i < n; i++ {
		c.Readers = append(c.Readers, rapid.SliceOfN(rapid.Custom(func(t *rapid.T) Step {
			s := genStep(t, cs)
			if s.Op == "reresolve" {
				s.Op = "read"
			}
			return s
		}), 1, 12).Draw(t, "prog"))
	}
	return c
}

func wantMode(h *tar.Header) uint32 {
	m := uint32(h.Mode & 0o777)
	switch h.Typeflag {
	case tar.TypeDir:
		m |= syscall.S_IFDIR
	case tar.TypeSymlink:
		m |= syscall.S_IFLNK
	case tar.TypeChar:
		m |= syscall.S_IFCHR
	case tar.TypeBlock:
		m |= syscall.S_IFBLK
	case tar.TypeFifo:
		m |= syscall.S_IFIFO
	default:
		m |= syscall.S_IFREG
	}
	if h.Mode&0o4000 != 0 {
		m |= syscall.S_ISUID
	}
	if h.Mode&0o2000 != 0 {
		m |= syscall.S_ISGID
	}
	if h.Mode&0o1000 != 0 {
		m |= syscall.S_ISVTX
	}
	return m
}

// checkAttr compares served attributes with what the tar describes.
func checkAttr(p string, n *tarmodel.Node, a fuse.Attr) error {
	if n.Implicit {
		if a.Mode&syscall.S_IFMT != syscall.S_IFDIR {
			return pbt.Violf("type", "%q: implicit directory served with mode %o", p, a.Mode)
		}
		return nil
	}
	h := n.Hdr
	if a.Mode != wantMode(h) {
		return pbt.Violf("mode", "%q: served mode %o, tar says %o (tar mode %o type %q)", p, a.Mode, wantMode(h), h.Mode, h.Typeflag)
	}
	var wantSize uint64
	switch h.Typeflag {
	case tar.TypeReg:
		wantSize = uint64(h.Size)
	case tar.TypeSymlink:
		wantSize = uint64(len(h.Linkname))
	}
	if a.Size != wantSize {
		return pbt.Violf("size", "%q: served size %d, tar says %d", p, a.Size, wantSize)
	}
	if a.Uid != uint32(h.Uid) || a.Gid != uint32(h.Gid) {
		return pbt.Violf("owner", "%q: served owner %d:%d, tar says %d:%d", p, a.Uid, a.Gid, h.Uid, h.Gid)
	}
	// the TOC carries whole seconds, rounded to nearest: accept |served - tar| < 1 s
	served := time.Unix(int64(a.Mtime), int64(a.Mtimensec))
	if d := served.Sub(h.ModTime); d <= -time.Second || d >= time.Second || int64(a.Mtime) < 0 {
		return pbt.Violf("mtime", "%q: served mtime %d.%09d (%v), tar says %v", p, int64(a.Mtime), a.Mtimensec, served.UTC(), h.ModTime.UTC())
	}
	if h.Typeflag == tar.TypeChar || h.Typeflag == tar.TypeBlock {
		if want := uint32(unix.Mkdev(uint32(h.Devmajor), uint32(h.Devminor))); a.Rdev != want {
			return pbt.Violf("rdev", "%q: served rdev %#x, tar says %d:%d = %#x", p, a.Rdev, h.Devmajor, h.Devminor, want)
		}
	}
	if h.Typeflag != tar.TypeDir {
		if int(a.Nlink) != n.NLink {
			return pbt.Violf("nlink", "%q: served link count %d, the tar has %d name(s) for it", p, a.Nlink, n.NLink)
		}
	} else {
		// a directory is named by its parent, by itself (".") and by every subdirectory ("..")
		want := 2
		for _, ch := range n.Children {
			if ch.Hdr == nil || ch.Hdr.Typeflag == tar.TypeDir {
				want++
			}
		}
		if int(a.Nlink) != want {
			return pbt.Violf("dir-nlink", "%q: served link count %d, the tar gives this directory %d subdirectories (want %d)", p, a.Nlink, want-2, want)
		}
	}
	return nil
}

type session struct {
	c      Case
	st     *fullstack.Stack
	l      layer.Layer
	fs     *fusedrive.FS
	model  *tarmodel.Node
	paths  []string // all model paths, sorted
	regs   []string // paths of non-empty regular files
	inoMu  sync.Mutex
	inoOf  map[string]uint64 // inode key -> served ino
	keyOf  map[uint64]string
	tocDg  digest.Digest
	desc   ocispec.Descriptor
	ev     *pbt.Ev
	evMu   sync.Mutex
	noteMu sync.Mutex
}

func (s *session) class(c string) {
	s.evMu.Lock()
	s.ev.Class(c)
	s.evMu.Unlock()
}

func (s *session) checkIno(p string, n *tarmodel.Node, ino uint64) error {
	key := "dir:" + p
	if !n.IsDir() {
		key = "inode:" + n.InodeKey
	}
	s.inoMu.Lock()
	defer s.inoMu.Unlock()
	if old, ok := s.inoOf[key]; ok && old != ino {
		return pbt.Violf("ino-unstable", "%q: inode number %d, earlier %d for the same file", p, ino, old)
	}
	if k, ok := s.keyOf[ino]; ok && k != key {
		return pbt.Violf("ino-shared", "%q and %q are different files but share inode number %d", p, k, ino)
	}
	s.inoOf[key], s.keyOf[ino] = ino, key
	return nil
}

func (s *session) step(i int, st Step) error {
	p := s.paths[st.Path%len(s.paths)]
	if st.Op == "read" && len(s.regs) > 0 {
		p = s.regs[st.Path%len(s.regs)] // reads pick among the regular files
	}
	n := tarmodel.Lookup(s.model, p)
	switch st.Op {
	case "lookup", "getattr":
		if st.Miss {
			dir := p
			if !n.IsDir() {
				dir = ""
			}
			dn, _, errno := s.fs.Walk(dir)
			if errno != 0 {
				return pbt.Violf("lookup-failed", "step %d: walking to directory %q: errno %d", i, dir, errno)
			}
			if _, _, errno := s.fs.Lookup(dn, "no-such-name-xyz"); errno != syscall.ENOENT {
				return pbt.Violf("lookup-absent", "step %d: looking up a name that the tar does not contain below %q returned errno %d, want ENOENT", i, dir, errno)
			}
			return nil
		}
		node, eo, errno := s.fs.Walk(p)
		if errno != 0 {
			return pbt.Violf("lookup-failed", "step %d: lookup of %q (in the tar) failed with errno %d", i, p, errno)
		}
		a := eo.Attr
		if st.Op == "getattr" {
			var e2 syscall.Errno
			a, e2 = s.fs.Getattr(node)
			if e2 != 0 {
				return pbt.Violf("getattr-failed", "step %d: getattr %q errno %d", i, p, e2)
			}
		}
		if p == "" && s.c.Cfg.Store == "db" && !n.Implicit && pbt.Known("C05-db-root-attr-before-init") {
			// recorded finding: the DB store serves the root's own attributes before its TOC parse finished
			s.evMu.Lock()
			s.ev.Exclude("C05-db-root-attr-before-init")
			s.evMu.Unlock()
		} else if err := checkAttr(p, n, a); err != nil {
			return fmt.Errorf("step %d (%s): %w", i, st.Op, err)
		}
		if p != "" {
			if err := s.checkIno(p, n, a.Ino); err != nil {
				return fmt.Errorf("step %d: %w", i, err)
			}
		}
	case "readdir":
		dir := p
		if !n.IsDir() {
			dir = parentOf(p)
			n = tarmodel.Lookup(s.model, dir)
		}
		dn, _, errno := s.fs.Walk(dir)
		if errno != 0 {
			return pbt.Violf("lookup-failed", "step %d: walking to %q: errno %d", i, dir, errno)
		}
		ents, errno := s.fs.Readdir(dn)
		if errno != 0 {
			return pbt.Violf("readdir-failed", "step %d: readdir %q errno %d", i, dir, errno)
		}
		var got, want []string
		for _, e := range ents {
			got = append(got, e.Name)
		}
		for k := range n.Children {
			want = append(want, k)
		}
		sort.Strings(want)
		if strings.Join(got, "\x00") != strings.Join(want, "\x00") {
			return pbt.Violf("listing", "step %d: directory %q lists %q, the tar describes %q", i, dir, got, want)
		}
		for _, e := range ents {
			ch := n.Children[e.Name]
			wm := uint32(syscall.S_IFDIR)
			if !ch.Implicit {
				wm = wantMode(ch.Hdr) & syscall.S_IFMT
			}
			if e.Mode&syscall.S_IFMT != wm {
				return pbt.Violf("dirent-type", "step %d: %q/%q listed with type bits %o, tar says %o", i, dir, e.Name, e.Mode&syscall.S_IFMT, wm)
			}
			cp := e.Name
			if dir != "" {
				cp = dir + "/" + e.Name
			}
			if err := s.checkIno(cp, ch, e.Ino); err != nil {
				return fmt.Errorf("step %d (listing): %w", i, err)
			}
		}
	case "readlink":
		if n.Implicit || n.Hdr.Typeflag != tar.TypeSymlink {
			return nil
		}
		node, _, errno := s.fs.Walk(p)
		if errno != 0 {
			return pbt.Violf("lookup-failed", "step %d: lookup of %q errno %d", i, p, errno)
		}
		tgt, errno := s.fs.Readlink(node)
		if errno != 0 || tgt != n.Hdr.Linkname {
			return pbt.Violf("readlink", "step %d: readlink %q = %q (errno %d), tar says %q", i, p, tgt, errno, n.Hdr.Linkname)
		}
	case "xattrs":
		if n.Implicit {
			return nil
		}
		node, _, errno := s.fs.Walk(p)
		if errno != 0 {
			return pbt.Violf("lookup-failed", "step %d: lookup of %q errno %d", i, p, errno)
		}
		got, errno := s.fs.Xattrs(node)
		if errno != 0 {
			return pbt.Violf("xattr-failed", "step %d: listing xattrs of %q errno %d", i, p, errno)
		}
		want := map[string][]byte{}
		for k, v := range n.Hdr.PAXRecords {
			if strings.HasPrefix(k, "SCHILY.xattr.") {
				want[strings.TrimPrefix(k, "SCHILY.xattr.")] = []byte(v)
			}
		}
		if len(got) != len(want) {
			return pbt.Violf("xattrs", "step %d: %q serves xattrs %q, tar says %q", i, p, keys(got), keys(want))
		}
		for k, v := range want {
			if gv, ok := got[k]; !ok || !bytes.Equal(gv, v) {
				return pbt.Violf("xattrs", "step %d: %q xattr %q = %q (present %v), tar says %q", i, p, k, gv, ok, v)
			}
		}
	case "read":
		if n.Implicit || n.Hdr.Typeflag != tar.TypeReg {
			return nil
		}
		node, _, errno := s.fs.Walk(p)
		if errno != 0 {
			return pbt.Violf("lookup-failed", "step %d: lookup of %q errno %d", i, p, errno)
		}
		h, errno := s.fs.Open(node)
		if errno != 0 {
			return pbt.Violf("open-failed", "step %d: open %q errno %d", i, p, errno)
		}
		defer h.Release()
		buf := make([]byte, st.Len)
		for j := range buf {
			buf[j] = 0xEE
		}
		got, errno := h.Read(buf, int64(st.Off))
		if errno != 0 {
			return pbt.Violf("read-failed", "step %d: read %q (off %d, len %d, size %d) errno %d", i, p, st.Off, st.Len, len(n.Content), errno)
		}
		want := []byte{}
		if st.Off < len(n.Content) {
			end := st.Off + st.Len
			if end > len(n.Content) {
				end = len(n.Content)
			}
			want = n.Content[st.Off:end]
		}
		if got != len(want) || !bytes.Equal(buf[:got], want) {
			return pbt.Violf("read-bytes", "step %d: read %q (off %d, len %d, size %d) returned %d bytes, equal to the tar content: %v (want %d bytes)", i, p, st.Off, st.Len, len(n.Content), got, bytes.Equal(buf[:got], want), len(want))
		}
		if st.Off+st.Len > len(n.Content) {
			s.class("read-past-eof")
		}
		cs := s.c.Opts.EffectiveChunk()
		if len(want) > 0 && st.Off/cs != (st.Off+len(want)-1)/cs {
			s.class("read-crosses-chunk")
		}
	case "prefetch":
		if err := s.l.Prefetch(int64(st.Len)); err != nil {
			return pbt.Violf("prefetch-failed", "step %d: Prefetch(%d) of a valid layer from a healthy registry failed: %v", i, st.Len, err)
		}
		s.class("prefetch")
	case "bgfetch":
		if err := s.l.BackgroundFetch(); err != nil {
			return pbt.Violf("bgfetch-failed", "step %d: BackgroundFetch of a valid layer from a healthy registry failed: %v", i, err)
		}
		s.class("background-fetch")
	}
	return nil
}

func keys(m map[string][]byte) []string {
	var o []string
	for k, v := range m {
		o = append(o, fmt.Sprintf("%s=%q", k, v))
	}
	sort.Strings(o)
	return o
}

func parentOf(p string) string {
	if i := strings.LastIndex(p, "/"); i >= 0 {
		return p[:i]
	}
	return ""
}

func open(c Case, ev *pbt.Ev) (*session, func(), error) {
	tarBytes, err := c.Archive.Tar()
	if err != nil {
		return nil, nil, pbt.Inconclusive("generator produced an archive the standard library refuses: %v", err)
	}
	raw, err := tarmodel.ReadTar(tarBytes)
	if err != nil {
		return nil, nil, pbt.Inconclusive("%v", err)
	}
	model, err := tarmodel.Tree(tarmodel.Dedup(raw, map[string]bool{".prefetch.landmark": true, ".no.prefetch.landmark": true, "stargz.index.json": true}))
	if err != nil {
		return nil, nil, pbt.Inconclusive("model: %v", err)
	}
	res, err := esgzbuild.Build(tarBytes, c.Opts)
	if err != nil {
		return nil, nil, pbt.Inconclusive("builder refused a valid archive (C03's business): %v", err)
	}
	st, err := fullstack.New(c.Cfg)
	if err != nil {
		return nil, nil, pbt.Inconclusive("stack: %v", err)
	}
	desc := st.AddBlob(res.Blob, res.ExternalTOC)
	l, err := st.Resolve(desc)
	if err != nil {
		st.Close()
		return nil, nil, pbt.Violf("resolve-failed", "resolving a valid layer from a healthy registry failed: %v", err)
	}
	tocDg := digest.Digest(res.TOCDigest)
	if err := l.Verify(tocDg); err != nil {
		l.Done()
		st.Close()
		return nil, nil, pbt.Violf("verify-failed", "Verify with the builder's TOC digest failed: %v", err)
	}
	root, err := l.RootNode(0)
	if err != nil {
		l.Done()
		st.Close()
		return nil, nil, pbt.Violf("rootnode-failed", "%v", err)
	}
	s := &session{c: c, st: st, l: l, model: model, tocDg: tocDg, desc: desc, ev: ev, inoOf: map[string]uint64{}, keyOf: map[uint64]string{}}
	s.fs = fusedrive.New(root, c.Memo)
	tarmodel.Walk(model, func(p string, n *tarmodel.Node) {
		s.paths = append(s.paths, p)
		if !n.IsDir() && n.Hdr.Typeflag == tar.TypeReg && len(n.Content) > 0 {
			s.regs = append(s.regs, p)
		}
	})
	return s, func() { l.Close(); st.Close() }, nil
}

func classify(c Case, s *session, ev *pbt.Ev) {
	hl, multi := false, false
	cs := c.Opts.EffectiveChunk()
	for _, e := range c.Archive.Entries {
		if e.Type == "hardlink" {
			hl = true
		}
		if e.Type == "reg" && e.Size > cs {
			multi = true
		}
	}
	ev.ClassIf(hl, "has-hardlink")
	ev.ClassIf(multi, "multi-chunk-file")
	ev.ClassIf(c.Opts.MinChunkSize > 0, "min-chunk-streams")
	ev.Class("store-" + c.Cfg.Store)
	ev.Class("fscache-" + c.Cfg.FSCache)
	ev.Class("compression-" + c.Opts.Compression)
	reads := 0
	for _, st := range c.Steps {
		if st.Op == "read" {
			reads++
		}
	}
	ev.NTIf((multi || c.Opts.MinChunkSize > 0) && reads >= 2 && (ev.Has("prefetch") || ev.Has("background-fetch") || ev.Has("read-crosses-chunk")))
}

func run(c Case, ev *pbt.Ev) error {
	s, cleanup, err := open(c, ev)
	if err != nil {
		return err
	}
	defer cleanup()
	for i, st := range c.Steps {
		if st.Op == "reresolve" {
			// a second resolve of the same layer hits the layer cache; releasing it must not disturb the first holder
			l2, err := s.st.Resolve(s.desc)
			if err != nil {
				return pbt.Violf("resolve-failed", "step %d: second resolve of the mounted layer failed: %v", i, err)
			}
			if err := l2.Verify(s.tocDg); err != nil {
				return pbt.Violf("verify-failed", "step %d: Verify on the second reference failed: %v", i, err)
			}
			l2.Done()
			ev.Class("reresolve")
			continue
		}
		if err := s.step(i, st); err != nil {
			return err
		}
		ev.Steps++
	}
	classify(c, s, ev)
	return nil
}

func TestProp_Access(t *testing.T) {
	pbt.Run(t, pbt.Options{Prop: "C02", Name: "Access", Quick: 2500, Thorough: 7500, Current: true, Timeout: 120 * time.Second,
		Floors: map[string]float64{"has-hardlink": 0.15, "read-past-eof": 0.15},
		Rule: "rapid: archive (<=14 entries: ./ ../ / spellings, trailing slashes, implicit parents, hardlink chains, duplicate names, empty/1-byte/multi-chunk files, PAX xattrs incl. empty and binary values, suid/sgid/sticky, char/block/fifo, ids up to 2^31, mtimes incl. 0 and sub-second, long and non-ASCII names) x build options (chunk, min-chunk, gzip/zstd/external TOC, prioritized, workers) " +
			"x stack config (memory/db store, memory/directory caches with LRU 1-3, direct, registry chunk size 37..default) x lookup memoisation x 1-25 steps of lookup/readdir/getattr/readlink/xattrs/read(off,len incl. past EOF, across chunks)/Prefetch/BackgroundFetch through the real resolver -> verified layer -> go-fuse nodes; " +
			"oracle: reference tree computed from the tar bytes alone. non-trivial = multi-chunk or shared-stream files, >= 2 reads, and prefetch/background fetch or a read across a chunk edge",
	}, gen, run)
}

func runConc(c Case, ev *pbt.Ev) error {
	s, cleanup, err := open(c, ev)
	if err != nil {
		return err
	}
	defer cleanup()
	var wg sync.WaitGroup
	errs := make([]error, len(c.Readers))
	for ri, prog := range c.Readers {
		wg.Add(1)
		go func(ri int, prog []Step) {
			defer wg.Done()
			for i, st := range prog {
				if err := s.step(i, st); err != nil {
					errs[ri] = fmt.Errorf("reader %d: %w", ri, err)
					return
				}
			}
		}(ri, prog)
	}
	wg.Wait()
	for _, e := range errs {
		if e != nil {
			return e
		}
	}
	classify(c, s, ev)
	ev.NT()
	return nil
}

func TestProp_ConcurrentReaders(t *testing.T) {
	pbt.Run(t, pbt.Options{Prop: "C02", Name: "ConcurrentReaders", Quick: 600, Thorough: 1800, Current: true, Timeout: 120 * time.Second,
		Rule: "as Access, with 2-4 concurrent readers each running a generated program of 1-12 steps on one mounted layer (incl. concurrent Prefetch/BackgroundFetch); same oracle per step. non-trivial = every case",
	}, genConc, runConc)
}

var _ = fusefs.NewNodeFS
