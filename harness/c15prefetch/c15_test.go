// C15 — prefetch and background fetch make later reads local; waiting is bounded.
package c15prefetch

import (
	"bytes"
	"fmt"
	"sort"
	"sync"
	"sync/atomic"
	"testing"
	"time"

	digest "github.com/opencontainers/go-digest"
	"pgregory.net/rapid"
	"verifharness/lib/esgzbuild"
	"verifharness/lib/esgzref"
	"verifharness/lib/fullstack"
	"verifharness/lib/fusedrive"
	"verifharness/lib/memreg"
	"verifharness/lib/pbt"
	"verifharness/lib/tarmodel"
)

type Case struct {
	Archive      tarmodel.Archive `json:"archive"`
	Opts         esgzbuild.Opts   `json:"opts"`
	Legacy       bool             `json:"legacy,omitempty"` // built by the sequential Writer: no landmarks
	Cfg          fullstack.Config `json:"config"`
	PrefetchSize int64            `json:"prefetch_size"`
	// registry script during prefetch: "" | "fail" (n-th range fetch answers 500) | "stall" (n-th range fetch blocks until its context ends)
	Script   string `json:"script,omitempty"`
	ScriptAt int    `json:"script_at,omitempty"`
	Waiters  int    `json:"waiters"`
	// prioritized begin/end pairs fired while background fetch runs (delays in microseconds)
	PrioDuringBG []int `json:"prio_during_bg,omitempty"`
	// on-demand reads of a few bytes (file index, offset, length) issued before background fetch starts: they leave
	// single chunks of a file in the cache
	PartialReads [][3]int `json:"partial_reads,omitempty"`
	Repeat       bool  `json:"repeat,omitempty"` // call Prefetch / BackgroundFetch / Wait a second time (also concurrently)
}

func gen(t *rapid.T) Case {
	var c Case
	c.Opts = esgzbuild.GenOpts(t, []string{"gzip", "gzip", "zstd", "external"})
	cs := c.Opts.ChunkSize
	if cs == 0 {
		cs = 64
	}
	c.Archive = tarmodel.Gen(t, tarmodel.GenOpts{MaxEntries: 12, ChunkSize: cs, Hardlinks: true, Spellings: true, RootEntry: true})
	c.Archive.Entries = append(c.Archive.Entries, tarmodel.Entry{Name: "zz-data", Type: "reg", Mode: 0o644, MTime: 1600000000, Size: rapid.SampledFrom([]int{1, cs + 1, 3 * cs, 20 * cs, 9*cs + 1}).Draw(t, "zzsize"), Seed: 99})
	if rapid.IntRange(0, 3).Draw(t, "nestedtocname") == 0 {
		// only the root entry of that name is the TOC; below a directory it is an ordinary file
		last := c.Archive.Entries[len(c.Archive.Entries)-1] // (zz-data stays the last entry)
		c.Archive.Entries[len(c.Archive.Entries)-1] = tarmodel.Entry{Name: rapid.SampledFrom([]string{"a/c/stargz.index.json", "var/stargz.index.json"}).Draw(t, "tocname"), Type: "reg", Mode: 0o644, MTime: 1600000000, Size: cs + 1, Seed: 77}
		c.Archive.Entries = append(c.Archive.Entries, last)
	}
	kind := rapid.SampledFrom([]string{"prioritized", "prioritized", "prioritized", "none", "legacy"}).Draw(t, "layerkind")
	var names []string
	for _, e := range c.Archive.Entries {
		if tarmodel.Clean(e.Name) != "" {
			names = append(names, e.Name)
		}
	}
	switch kind {
	case "prioritized":
		c.Opts.Prioritized = rapid.SliceOfN(rapid.SampledFrom(names), 1, 4).Draw(t, "prioritized")
	case "legacy":
		c.Legacy = true
		c.Opts.Workers = 0
	}
	c.Cfg = fullstack.GenConfig(t)
	c.Cfg.PrefetchTO = 1
	c.Cfg.FetchTO = 1
	c.Cfg.AsyncSize = rapid.SampledFrom([]int64{0, 0, 1, 100, 100000}).Draw(t, "async")
	c.Cfg.SilenceMs = rapid.SampledFrom([]int{0, 1, 5}).Draw(t, "silence")
	c.PrefetchSize = rapid.SampledFrom([]int64{0, 1, 100, 700, 1 << 20}).Draw(t, "prefetchsize")
	switch rapid.IntRange(0, 7).Draw(t, "script") {
	case 0:
		c.Script, c.ScriptAt = "fail", rapid.IntRange(0, 3).Draw(t, "at")
	case 1:
		c.Script, c.ScriptAt = "stall", rapid.IntRange(0, 2).Draw(t, "at")
	}
	c.Waiters = rapid.IntRange(0, 3).Draw(t, "waiters")
	if c.Script == "stall" && rapid.Bool().Draw(t, "asyncedge") {
		// the requested size exceeds the asynchronous threshold, the size that is really prefetched may not
		c.Cfg.AsyncSize = rapid.SampledFrom([]int64{100000, 300, 100}).Draw(t, "asyncsize2")
		c.PrefetchSize = 1 << 20
		if c.Waiters == 0 {
			c.Waiters = 1
		}
	}
	c.PrioDuringBG = rapid.SliceOfN(rapid.SampledFrom([]int{0, 50, 300, 2000}), 0, 4).Draw(t, "prio")
	c.Repeat = rapid.Bool().Draw(t, "repeat")
	npr := rapid.SampledFrom([]int{0, 0, 1, 2, 4}).Draw(t, "npartial")
	if npr > 0 && rapid.IntRange(0, 3).Draw(t, "smallregchunk") > 0 {
		c.Cfg.RegChunk = rapid.SampledFrom([]int64{100, 64, 512}).Draw(t, "regchunk2") // a skipped file's blob range is then not fetched along with its neighbours
	}
	for i := 0; i < npr; i++ {
		c.PartialReads = append(c.PartialReads, [3]int{rapid.IntRange(-5, 12).Draw(t, "prfile"), rapid.SampledFrom([]int{0, 0, 1, cs, cs + 1, 2 * cs}).Draw(t, "proff"), rapid.SampledFrom([]int{1, 2, cs, cs + 1}).Draw(t, "prlen")})
	}
	if npr > 0 && rapid.Bool().Draw(t, "headonly") {
		// a container looks at the head of a big file and nothing else: exactly one chunk of it is cached
		// when background fetch walks the layer
		c.Archive.Entries[len(c.Archive.Entries)-1].Size = rapid.SampledFrom([]int{20 * cs, 9*cs + 1, 3 * cs}).Draw(t, "bigzz")
		c.PartialReads[0] = [3]int{-1, 0, rapid.SampledFrom([]int{1, 2, cs}).Draw(t, "headlen")}
		if rapid.Bool().Draw(t, "persistentfscache") {
			c.Cfg.FSCache = "directory"
		}
	}
	if rapid.IntRange(0, 39).Draw(t, "bigfile") == 0 {
		// reading the head of a file pulls up to 2 MiB of its compressed data into the blob cache, so only a file
		// that is bigger than that still depends on background fetch after such a read
		c.Opts = esgzbuild.Opts{Compression: "gzip", Level: 1, ChunkSize: 1 << 20, Workers: 1}
		c.Legacy = false
		c.Archive.Entries[len(c.Archive.Entries)-1].Size = 5500000 // (generated content compresses to about 58 %)
		c.Cfg.RegChunk = rapid.SampledFrom([]int64{0, 1 << 19}).Draw(t, "bigregchunk")
		c.Cfg.BodyPiece = 0
		c.Script = ""
		c.PartialReads = [][3]int{{-1, 0, 2}}
	}
	return c
}

func fetches(log []memreg.Req, from int) []memreg.Req {
	var out []memreg.Req
	for _, q := range log[from:] {
		if q.Header.Get("Accept-Encoding") == "identity" && len(q.Ranges) > 0 {
			out = append(out, q)
		}
	}
	return out
}

func run(c Case, ev *pbt.Ev) error {
	tarBytes, err := c.Archive.Tar()
	if err != nil {
		return pbt.Inconclusive("generator produced an archive the standard library refuses: %v", err)
	}
	var res *esgzbuild.Built
	if c.Legacy {
		res, err = esgzbuild.Write(tarBytes, c.Opts, false)
	} else {
		res, err = esgzbuild.Build(tarBytes, c.Opts)
	}
	if err != nil {
		return pbt.Inconclusive("builder (C03's business): %v", err)
	}
	p, err := esgzref.Parse(res.Blob, res.ExternalTOC)
	if err != nil {
		return pbt.Inconclusive("reference parser: %v", err)
	}
	files, err := p.Files()
	if err != nil {
		return pbt.Inconclusive("reference parser: %v", err)
	}
	// landmark and the set of files laid out before it
	var landmark *esgzref.Entry
	noPrefetch := false
	for _, e := range p.TOC.Entries {
		if e.Type == "reg" && e.Name == ".prefetch.landmark" {
			landmark = e
		}
		if e.Type == "reg" && e.Name == ".no.prefetch.landmark" {
			noPrefetch = true
		}
	}
	var prioritized []string
	if landmark != nil {
		cur := ""
		before := map[string]bool{}
		for _, e := range p.TOC.Entries {
			if e.Type == "reg" {
				cur = e.Name
				if e.Size > 0 && e.Name != ".prefetch.landmark" {
					before[cur] = e.Offset < landmark.Offset
				}
			} else if e.Type == "chunk" && e.Offset >= landmark.Offset {
				before[cur] = false
			}
		}
		for n, ok := range before {
			if ok {
				prioritized = append(prioritized, n)
			}
		}
		sort.Strings(prioritized)
	}
	st, err := fullstack.New(c.Cfg)
	if err != nil {
		return pbt.Inconclusive("stack: %v", err)
	}
	defer st.Close()
	desc := st.AddBlob(res.Blob, res.ExternalTOC)
	l, err := st.Resolve(desc)
	if err != nil {
		return pbt.Violf("resolve-failed", "%v", err)
	}
	defer l.Close()
	if err := l.Verify(digest.Digest(res.TOCDigest)); err != nil {
		return pbt.Violf("verify-failed", "%v", err)
	}
	root, err := l.RootNode(0)
	if err != nil {
		return pbt.Violf("rootnode-failed", "%v", err)
	}
	fs := fusedrive.New(root, false)
	readAll := func(name string) ([]byte, error) {
		n, _, errno := fs.Walk(tarmodel.Clean(name))
		if errno != 0 {
			return nil, fmt.Errorf("lookup errno %d", errno)
		}
		h, errno := fs.Open(n)
		if errno != 0 {
			return nil, fmt.Errorf("open errno %d", errno)
		}
		defer h.Release()
		buf := make([]byte, len(files[name].Content)+4)
		got, errno := h.Read(buf, 0)
		if errno != 0 {
			return nil, fmt.Errorf("read errno %d", errno)
		}
		return buf[:got], nil
	}

	// ---- prefetch under the scripted registry
	var fetchSeq atomic.Int32
	var scripted atomic.Bool
	startLog := st.Reg.LogLen()
	st.Reg.Decide = func(q *memreg.Req) memreg.Action {
		if q.Header.Get("Accept-Encoding") != "identity" {
			return memreg.Action{}
		}
		i := int(fetchSeq.Add(1)) - 1
		if c.Script != "" && i == c.ScriptAt {
			scripted.Store(true)
			if c.Script == "fail" {
				return memreg.Action{Kind: "status", Status: 500}
			}
			return memreg.Action{Kind: "stall", Gate: make(chan struct{})} // until the request context ends
		}
		return memreg.Action{}
	}
	timeout := time.Duration(c.Cfg.PrefetchTO) * time.Second
	const margin = 20
	var wg sync.WaitGroup
	prefetchDone := make(chan error, 1)
	go func() { prefetchDone <- l.Prefetch(c.PrefetchSize) }()
	waitErrs := make([]string, c.Waiters)
	waitTook := make([]time.Duration, c.Waiters)
	prefetchStart := time.Now()
	for w := 0; w < c.Waiters; w++ {
		wg.Add(1)
		go func(w int) {
			defer wg.Done()
			t0 := time.Now()
			l.WaitForPrefetchCompletion()
			waitTook[w] = time.Since(t0)
			if d := time.Since(t0); d > timeout*margin {
				waitErrs[w] = fmt.Sprintf("WaitForPrefetchCompletion returned after %v (configured timeout %v)", d, timeout)
			}
		}(w)
	}
	var prefetchErr error
	select {
	case prefetchErr = <-prefetchDone:
	case <-time.After(60 * time.Second):
		return pbt.Violf("prefetch-hangs", "Prefetch did not return within 60 s (fetch timeout is %d s)", c.Cfg.FetchTO)
	}
	prefetchTook := time.Since(prefetchStart)
	wg.Wait()
	for _, w := range waitErrs {
		if w != "" {
			return pbt.Violf("wait-unbounded", "%s", w)
		}
	}
	// waiting covers the prefetch: it may end early only in the documented asynchronous mode, i.e. when the size
	// that is actually prefetched (landmark offset, or the requested size capped at the blob size) exceeds
	// prefetch_async_size.  Judged only when the registry stalled, so that "early" is unmistakable.
	if c.Script == "stall" && scripted.Load() && prefetchTook > 800*time.Millisecond && !noPrefetch {
		effective := c.PrefetchSize
		if landmark != nil {
			effective = landmark.Offset
		} else if effective > int64(len(res.Blob)) {
			effective = int64(len(res.Blob))
		}
		async := c.Cfg.AsyncSize > 0 && effective > c.Cfg.AsyncSize
		for w, d := range waitTook {
			if d < 300*time.Millisecond && !async {
				return pbt.Violf("wait-returned-early", "waiter %d returned after %v while the prefetch of %d bytes (prefetch_async_size %d: synchronous) was still stalled and took %v; the timeout is %v", w, d, effective, c.Cfg.AsyncSize, prefetchTook, timeout)
			}
			ev.ClassIf(!async, "waiter-held-during-stalled-synchronous-prefetch")
			ev.ClassIf(async, "waiter-released-early-async-mode")
		}
	}
	// once prefetch ended or failed, waiting returns promptly
	t0 := time.Now()
	l.WaitForPrefetchCompletion()
	if d := time.Since(t0); d > timeout/2 {
		return pbt.Violf("wait-after-completion", "Prefetch has returned (err=%v) but WaitForPrefetchCompletion still took %v", prefetchErr, d)
	}
	st.Reg.Decide = nil
	prefetchReqs := fetches(st.Reg.Log(), startLog)
	ev.Class("layer-" + map[bool]string{true: "legacy", false: map[bool]string{true: "no-prefetch-landmark", false: "prefetch-landmark"}[noPrefetch]}[c.Legacy])
	if prefetchErr != nil && !scripted.Load() {
		return pbt.Violf("prefetch-failed", "Prefetch of a valid layer from a healthy registry failed: %v", prefetchErr)
	}
	ev.ClassIf(scripted.Load(), "registry-"+c.Script)
	if prefetchErr == nil {
		switch {
		case noPrefetch:
			if len(prefetchReqs) != 0 {
				return pbt.Violf("no-prefetch-traffic", "the layer carries a no-prefetch landmark but Prefetch caused %d range request(s): %v", len(prefetchReqs), prefetchReqs[0].Ranges)
			}
		case landmark != nil:
			// (without sync_add the cache files are written in the background: "prefetched" is observable once they landed)
			st.WaitCacheWritesLanded(5 * time.Second)
			before := st.Reg.LogLen()
			for _, name := range prioritized {
				got, err := readAll(name)
				if err != nil {
					return pbt.Violf("read-failed", "reading prioritized file %q after prefetch: %v", name, err)
				}
				if !bytes.Equal(got, files[name].Content) {
					return pbt.Violf("read-bytes", "prioritized file %q read after prefetch differs from the layer content", name)
				}
			}
			if extra := fetches(st.Reg.Log(), before); len(extra) > 0 {
				return pbt.Violf("prefetched-read-not-local", "prefetch completed, yet reading the prioritized files %q caused %d further range request(s), first %v (landmark offset %d)", prioritized, len(extra), extra[0].Ranges, landmark.Offset)
			}
			ev.ClassIf(len(prioritized) > 0, "prioritized-files-read")
		default: // legacy layer without landmarks: the configured size, capped at the blob size, is fetched
			want := c.PrefetchSize
			if want > int64(len(res.Blob)) {
				want = int64(len(res.Blob))
			}
			covered := make([]bool, want)
			for _, q := range fetches(st.Reg.Log(), 0) { // resolve-time fetches count as well: they are cached
				for _, r := range q.Ranges {
					for i := r.B; i <= r.E && i < want; i++ {
						covered[i] = true
					}
				}
			}
			for i, ok := range covered {
				if !ok {
					return pbt.Violf("legacy-prefetch-coverage", "legacy layer: Prefetch(%d) completed but byte %d of the first %d blob bytes was never requested", c.PrefetchSize, i, want)
				}
			}
		}
	}
	// ---- a container reads a few bytes here and there before background fetch gets to run
	if len(c.PartialReads) > 0 {
		var regs []string
		for n, f := range files {
			if len(f.Content) > 0 && n != ".prefetch.landmark" && n != ".no.prefetch.landmark" {
				regs = append(regs, n)
			}
		}
		sort.Strings(regs)
		for _, pr := range c.PartialReads {
			if len(regs) == 0 {
				break
			}
			name := regs[((pr[0]%len(regs))+len(regs))%len(regs)]
			if _, ok := files["zz-data"]; ok && pr[0] < 0 {
				name = "zz-data"
			}
			n, _, errno := fs.Walk(tarmodel.Clean(name))
			if errno != 0 {
				return pbt.Violf("read-failed", "lookup of %q: errno %d", name, errno)
			}
			h, errno := fs.Open(n)
			if errno != 0 {
				return pbt.Violf("read-failed", "open of %q: errno %d", name, errno)
			}
			want := files[name].Content
			off := pr[1]
			if off > len(want) {
				off = len(want)
			}
			buf := make([]byte, pr[2])
			got, errno := h.Read(buf, int64(off))
			h.Release()
			end := off + pr[2]
			if end > len(want) {
				end = len(want)
			}
			if errno != 0 || !bytes.Equal(buf[:got], want[off:end]) {
				return pbt.Violf("read-bytes", "on-demand read of %q [%d,%d) before background fetch: errno %d, %d bytes", name, off, end, errno, got)
			}
			ev.ClassIf(len(want) > c.Opts.EffectiveChunk(), "partial-read-of-multi-chunk-file-before-bgfetch")
		}
	}
	if len(c.PartialReads) > 0 {
		st.WaitCacheWritesLanded(5 * time.Second) // (background fetch starts some time after those reads)
	}
	// ---- background fetch with prioritized work arriving
	stopPrio := make(chan struct{})
	var pw sync.WaitGroup
	pw.Add(1)
	go func() {
		defer pw.Done()
		for _, d := range c.PrioDuringBG {
			select {
			case <-stopPrio:
				return
			case <-time.After(time.Duration(d) * time.Microsecond):
			}
			st.TaskMgr.DoPrioritizedTask()
			time.Sleep(50 * time.Microsecond)
			st.TaskMgr.DonePrioritizedTask()
		}
	}()
	bgDone := make(chan error, 1)
	go func() { bgDone <- l.BackgroundFetch() }()
	var bgErr error
	select {
	case bgErr = <-bgDone:
	case <-time.After(90 * time.Second):
		close(stopPrio)
		return pbt.Violf("bgfetch-hangs", "BackgroundFetch did not return within 90 s after prioritized work stopped")
	}
	close(stopPrio)
	pw.Wait()
	if bgErr != nil {
		return pbt.Violf("bgfetch-failed", "BackgroundFetch of a valid layer from a healthy registry failed: %v", bgErr)
	}
	st.WaitCacheWritesLanded(5 * time.Second)
	st.Reg.SetDown(true)
	var names []string
	for n := range files {
		names = append(names, n)
	}
	sort.Strings(names)
	for _, name := range names {
		if name == ".prefetch.landmark" || name == ".no.prefetch.landmark" {
			continue
		}
		got, err := readAll(name)
		if err != nil {
			return pbt.Violf("offline-read-failed", "background fetch completed, registry unreachable: reading %q failed: %v", name, err)
		}
		if !bytes.Equal(got, files[name].Content) {
			return pbt.Violf("offline-read-bytes", "background fetch completed, registry unreachable: %q reads different bytes", name)
		}
	}
	st.Reg.SetDown(false)
	ev.ClassIf(len(c.PrioDuringBG) > 0, "prioritized-work-during-bgfetch")
	if c.Repeat {
		before := st.Reg.LogLen()
		var rw sync.WaitGroup
		for i := 0; i < 2; i++ {
			rw.Add(3)
			go func() { defer rw.Done(); l.Prefetch(c.PrefetchSize) }()
			go func() { defer rw.Done(); l.BackgroundFetch() }()
			go func() { defer rw.Done(); l.WaitForPrefetchCompletion() }()
		}
		done := make(chan struct{})
		go func() { rw.Wait(); close(done) }()
		select {
		case <-done:
		case <-time.After(30 * time.Second):
			return pbt.Violf("repeat-hangs", "repeated Prefetch/BackgroundFetch/Wait calls did not return")
		}
		if extra := fetches(st.Reg.Log(), before); len(extra) > 0 {
			return pbt.Violf("repeat-traffic", "second Prefetch/BackgroundFetch calls caused %d range request(s)", len(extra))
		}
		ev.Class("repeated-calls")
	}
	ev.Class("store-" + c.Cfg.Store)
	multi := false
	for _, n := range prioritized {
		if len(files[n].Chunks) > 1 {
			multi = true
		}
	}
	ev.ClassIf(multi, "prioritized-multi-chunk")
	ev.NTIf(multi || scripted.Load() || (c.Cfg.Store == "db" && landmark != nil))
	return nil
}

func TestProp_Prefetch(t *testing.T) {
	pbt.Run(t, pbt.Options{Prop: "C15", Name: "Prefetch", Quick: 1500, Thorough: 12000, Current: true, Timeout: 240 * time.Second,
		Rule: "rapid: layer = builder output with a prioritized list / without (no-prefetch landmark) / legacy Writer output without landmarks x stack config (both stores, cache kinds, registry chunk size, prefetch chunk size, async threshold, silence period) x prefetch size x registry script during prefetch {healthy, n-th range fetch fails with 500, n-th range fetch stalls until its 1 s timeout} x 0-3 concurrent waiters x prioritized begin/end pairs fired during background fetch x repeated/concurrent second calls; " +
			"oracle: after a successful Prefetch on a prefetch-landmark layer reading every file laid out before the landmark adds no range request to the registry log; no-prefetch landmark => zero range requests; legacy => the first min(size, blob) bytes were requested; after a successful BackgroundFetch every file reads completely and correctly with the registry unreachable; WaitForPrefetchCompletion returns within 20x its 1 s timeout in every script, promptly once Prefetch has returned, and not while a stalled prefetch below the asynchronous threshold is still running; a few on-demand partial reads precede background fetch; second calls cause no traffic. " +
			"non-trivial = a prioritized multi-chunk file, a scripted failure/stall, or the DB store with a prefetch landmark",
	}, gen, run)
}
