//go:build !race

package c19convert

const raceBuild = false
