//go:build race

package c19convert

const raceBuild = true
