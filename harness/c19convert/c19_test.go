// C19 — image conversion emits descriptors that describe exactly the blobs it wrote.
package c19convert

import (
	"bytes"
	"context"
	"encoding/binary"
	"encoding/json"
	"errors"
	"fmt"
	"io"
	"os"
	"strings"
	"sync"
	"sync/atomic"
	"testing"
	"time"

	"github.com/containerd/containerd/v2/core/content"
	"github.com/containerd/containerd/v2/core/images"
	"github.com/containerd/containerd/v2/core/images/converter"
	"github.com/containerd/containerd/v2/plugins/content/local"
	"github.com/containerd/stargz-snapshotter/estargz"
	esgzconv "github.com/containerd/stargz-snapshotter/nativeconverter/estargz"
	exttocconv "github.com/containerd/stargz-snapshotter/nativeconverter/estargz/externaltoc"
	zstdconv "github.com/containerd/stargz-snapshotter/nativeconverter/zstdchunked"
	"github.com/klauspost/compress/zstd"
	digest "github.com/opencontainers/go-digest"
	ocispec "github.com/opencontainers/image-spec/specs-go/v1"
	"pgregory.net/rapid"
	"verifharness/lib/esgzbuild"
	"verifharness/lib/esgzref"
	"verifharness/lib/pbt"
	"verifharness/lib/tarmodel"
)

type SrcLayer struct {
	Archive  tarmodel.Archive `json:"archive"`
	Comp     string           `json:"compression"` // none | gzip | zstd | estargz
	Docker   bool             `json:"docker_media_type,omitempty"`
	PerLayer int              `json:"per_layer_chunk,omitempty"` // per-layer option: chunk size (0 = none)
	Unpacked bool             `json:"unpacked,omitempty"`        // the source blob carries the labels of a pulled and unpacked layer
}

type Case struct {
	Layers    []SrcLayer `json:"layers"`
	Converter string     `json:"converter"` // estargz | zstdchunked | externaltoc | externaltoc-lossless
	ChunkSize int        `json:"chunk_size"`
	MinChunk  int        `json:"min_chunk_size,omitempty"`
	Level     int        `json:"level"`
	Parallel  bool       `json:"parallel"`
	Retry     bool       `json:"retry,omitempty"` // a first attempt is interrupted; the retry finds its writer ref
	// RetryAfter >= 0: the first attempt's content writers fail after that many bytes in total (what a killed
	// process or a full disk leaves behind: a partial ingest under the ref); < 0: its context is cancelled early
	RetryAfter int `json:"retry_after,omitempty"`
	// PlainStore: the content store keeps no labels (containerd's plain local store, as the repository's own
	// converter tests use it): conversion works all the same, only the label cannot be looked at
	PlainStore bool `json:"plain_store,omitempty"`
	// Again: after everything was converted and checked, the converted blobs lose their labels (a node that pulled
	// the converted image without unpacking it) and every layer is converted a second time: the blobs already exist
	Again bool `json:"again,omitempty"`
	// SharedOpts (zstd:chunked without per-layer options): all layers go through one converter function built
	// from one option slice that has spare capacity
	SharedOpts bool `json:"shared_opts,omitempty"`
}

func gen(t *rapid.T) Case {
	c := Case{Converter: rapid.SampledFrom([]string{"estargz", "estargz", "zstdchunked", "zstdchunked", "externaltoc", "externaltoc-lossless"}).Draw(t, "converter")}
	c.ChunkSize = rapid.SampledFrom([]int{8, 16, 64, 0}).Draw(t, "chunk")
	if rapid.IntRange(0, 3).Draw(t, "usemin") == 0 {
		c.MinChunk = rapid.SampledFrom([]int{10, 100}).Draw(t, "min")
	}
	c.Level = rapid.IntRange(1, 4).Draw(t, "level")
	if c.Converter == "zstdchunked" && c.Level == 4 && (raceBuild || rapid.IntRange(0, 3).Draw(t, "best") != 0) {
		// zstd "best" allocates and clears very large match tables per encoder (seconds per layer
		// under the race detector on a loaded machine); the level is not what the property is about
		c.Level = 3
	}
	cs := c.ChunkSize
	if cs == 0 {
		cs = 64
	}
	n := rapid.IntRange(1, 5).Draw(t, "layers")
	for i := 0; i < n; i++ {
		l := SrcLayer{Archive: tarmodel.Gen(t, tarmodel.GenOpts{MaxEntries: 8, ChunkSize: cs, Hardlinks: true, Xattrs: true}),
			Comp: rapid.SampledFrom([]string{"none", "gzip", "gzip", "zstd", "estargz"}).Draw(t, "comp"), Docker: rapid.IntRange(0, 3).Draw(t, "docker") == 0, Unpacked: rapid.Bool().Draw(t, "unpacked")}
		// distinct layers: every archive gets a unique marker file
		l.Archive.Entries = append(l.Archive.Entries, tarmodel.Entry{Name: fmt.Sprintf("layer-marker-%d", i), Type: "reg", Mode: 0o644, MTime: 1600000000, Size: 3 + i, Seed: uint32(100 + i)})
		if rapid.IntRange(0, 3).Draw(t, "perlayer") == 0 {
			l.PerLayer = rapid.SampledFrom([]int{4, 32}).Draw(t, "perlayerchunk")
		}
		c.Layers = append(c.Layers, l)
	}
	c.Parallel = rapid.Bool().Draw(t, "parallel")
	c.PlainStore = rapid.IntRange(0, 4).Draw(t, "plainstore") == 0
	c.Again = rapid.IntRange(0, 3).Draw(t, "again") == 0
	c.SharedOpts = rapid.Bool().Draw(t, "sharedopts")
	if rapid.IntRange(0, 5).Draw(t, "sharedscenario") == 0 {
		// several layers through one zstd:chunked converter function whose option slice has spare capacity, all at once
		c.Converter, c.ChunkSize, c.SharedOpts, c.Parallel, c.Retry = "zstdchunked", 16, true, true, false
		for i := range c.Layers {
			c.Layers[i].PerLayer = 0
		}
		for len(c.Layers) < 3 {
			l := c.Layers[0]
			l.Archive.Entries = append(append([]tarmodel.Entry(nil), l.Archive.Entries...), tarmodel.Entry{Name: fmt.Sprintf("extra-marker-%d", len(c.Layers)), Type: "reg", Mode: 0o644, MTime: 1600000000, Size: 5 + len(c.Layers), Seed: uint32(300 + len(c.Layers))})
			c.Layers = append(c.Layers, l)
		}
	}
	c.Retry = rapid.IntRange(0, 3).Draw(t, "retry") == 0
	if c.Retry {
		c.RetryAfter = rapid.SampledFrom([]int{-1, 0, 1, 10, 100, 100, 700, 700, 3000}).Draw(t, "retryafter")
	}
	return c
}

// flakyStore passes everything to the real store; its writers accept *left more bytes in total and then fail
// without committing, like a conversion killed in the middle of its copy.
type flakyStore struct {
	content.Store
	left *int64
}

type flakyWriter struct {
	content.Writer
	left *int64
}

func (s *flakyStore) Writer(ctx context.Context, opts ...content.WriterOpt) (content.Writer, error) {
	w, err := s.Store.Writer(ctx, opts...)
	if err != nil {
		return nil, err
	}
	return &flakyWriter{Writer: w, left: s.left}, nil
}

func (w *flakyWriter) Write(p []byte) (int, error) {
	left := atomic.LoadInt64(w.left)
	if int64(len(p)) <= left {
		atomic.AddInt64(w.left, -int64(len(p)))
		return w.Writer.Write(p)
	}
	n := 0
	if left > 0 {
		n, _ = w.Writer.Write(p[:left])
		atomic.StoreInt64(w.left, 0)
	}
	return n, errors.New("interrupted (scripted)")
}

// memLabels is an in-memory label store (containerd keeps content labels in its metadata database).
type memLabels struct {
	mu sync.Mutex
	m  map[digest.Digest]map[string]string
}

func newMemLabels() *memLabels { return &memLabels{m: map[digest.Digest]map[string]string{}} }

func (l *memLabels) Get(d digest.Digest) (map[string]string, error) {
	l.mu.Lock()
	defer l.mu.Unlock()
	out := map[string]string{}
	for k, v := range l.m[d] {
		out[k] = v
	}
	return out, nil
}

func (l *memLabels) Set(d digest.Digest, labels map[string]string) error {
	l.mu.Lock()
	defer l.mu.Unlock()
	cp := map[string]string{}
	for k, v := range labels {
		cp[k] = v
	}
	l.m[d] = cp
	return nil
}

func (l *memLabels) Update(d digest.Digest, update map[string]string) (map[string]string, error) {
	l.mu.Lock()
	defer l.mu.Unlock()
	if l.m[d] == nil {
		l.m[d] = map[string]string{}
	}
	for k, v := range update {
		if v == "" {
			delete(l.m[d], k)
		} else {
			l.m[d][k] = v
		}
	}
	out := map[string]string{}
	for k, v := range l.m[d] {
		out[k] = v
	}
	return out, nil
}

func mediaType(comp string, docker bool) string {
	switch comp {
	case "none":
		if docker {
			return images.MediaTypeDockerSchema2Layer
		}
		return ocispec.MediaTypeImageLayer
	case "zstd":
		return ocispec.MediaTypeImageLayerZstd // (Docker has no zstd layer media type)
	}
	if docker {
		return images.MediaTypeDockerSchema2LayerGzip
	}
	return ocispec.MediaTypeImageLayerGzip
}

func decompressAny(b []byte) ([]byte, string, error) {
	switch {
	case len(b) >= 2 && b[0] == 0x1f && b[1] == 0x8b:
		d, err := esgzref.DecompressAll(b, "gzip")
		return d, "gzip", err
	case len(b) >= 4 && binary.LittleEndian.Uint32(b) == 0xFD2FB528:
		d, err := esgzref.DecompressAll(b, "zstd")
		return d, "zstd", err
	}
	return b, "none", nil
}

func readBlob(ctx context.Context, cs content.Store, d digest.Digest) ([]byte, error) {
	return content.ReadBlob(ctx, cs, ocispec.Descriptor{Digest: d})
}

func run(c Case, ev *pbt.Ev) error {
	dir, err := os.MkdirTemp("", "c19")
	if err != nil {
		return pbt.Inconclusive("%v", err)
	}
	defer os.RemoveAll(dir)
	ml := newMemLabels()
	cs, err := local.NewLabeledStore(dir, ml)
	if c.PlainStore {
		cs, err = local.NewStore(dir)
		ev.Class("store-without-labels")
	}
	if err != nil {
		return pbt.Inconclusive("content store: %v", err)
	}
	ctx := context.Background()
	type src struct {
		desc    ocispec.Descriptor
		tarSum  string
		tarSize int
	}
	var srcs []src
	perLayer := map[digest.Digest][]estargz.Option{}
	for i, l := range c.Layers {
		tb, err := l.Archive.Tar()
		if err != nil {
			return pbt.Inconclusive("generator produced an archive the standard library refuses: %v", err)
		}
		blob := tb
		switch l.Comp {
		case "gzip":
			blob = esgzbuild.GzipBytes(tb, 1)
		case "zstd":
			blob = esgzbuild.ZstdBytes(tb)
		case "estargz":
			b, err := esgzbuild.Build(tb, esgzbuild.Opts{Compression: "gzip", Level: 1, ChunkSize: 16, Workers: 1})
			if err != nil {
				return pbt.Inconclusive("builder: %v", err)
			}
			blob = b.Blob
		}
		d := ocispec.Descriptor{MediaType: mediaType(l.Comp, l.Docker), Digest: digest.FromBytes(blob), Size: int64(len(blob))}
		dec, _, _ := decompressAny(blob)
		var wopts []content.Opt
		if l.Unpacked {
			wopts = append(wopts, content.WithLabels(map[string]string{
				"containerd.io/uncompressed":                    esgzref.Sha256(dec),
				"containerd.io/distribution.source.reg.example": "repo/img",
			}))
			ev.Class("source-has-unpack-labels")
		}
		if err := content.WriteBlob(ctx, cs, fmt.Sprintf("src-%d", i), bytes.NewReader(blob), d, wopts...); err != nil {
			return pbt.Inconclusive("writing the source layer: %v", err)
		}
		srcs = append(srcs, src{desc: d, tarSum: esgzref.Sha256(dec), tarSize: len(dec)})
		if l.PerLayer > 0 {
			perLayer[d.Digest] = []estargz.Option{estargz.WithChunkSize(l.PerLayer)}
		}
	}
	common := []estargz.Option{estargz.WithChunkSize(c.ChunkSize), estargz.WithParallelism(2)}
	if c.MinChunk > 0 {
		common = append(common, estargz.WithMinChunkSize(c.MinChunk))
	}
	var conv converter.ConvertFunc
	var finalize func(ctx context.Context, cs content.Store, ref string, desc *ocispec.Descriptor) (*images.Image, error)
	switch c.Converter {
	case "estargz":
		conv = esgzconv.LayerConvertWithLayerAndCommonOptsFunc(perLayer, append(common, estargz.WithCompressionLevel(c.Level))...)
	case "zstdchunked":
		opts := map[digest.Digest][]estargz.Option{}
		for _, s := range srcs {
			opts[s.desc.Digest] = append(append([]estargz.Option{}, common...), perLayer[s.desc.Digest]...)
		}
		conv = zstdconv.LayerConvertWithLayerOptsFuncWithCompressionLevel(zstd.EncoderLevel(c.Level), opts)
		if len(perLayer) == 0 && c.ChunkSize == 0 {
			conv = zstdconv.LayerConvertFuncWithCompressionLevel(zstd.EncoderLevel(c.Level))
		} else if len(perLayer) == 0 && c.SharedOpts {
			shared := make([]estargz.Option, 0, 8)
			shared = append(shared, common...)
			conv = zstdconv.LayerConvertFuncWithCompressionLevel(zstd.EncoderLevel(c.Level), shared...)
			ev.Class("zstd-one-converter-shared-options")
		}
	case "externaltoc":
		conv, finalize = exttocconv.LayerConvertWithLayerAndCommonOptsFunc(perLayer, common, c.Level)
	case "externaltoc-lossless":
		conv, finalize = exttocconv.LayerConvertLossLessFunc(exttocconv.LayerConvertLossLessConfig{CompressionLevel: c.Level, ChunkSize: c.ChunkSize, MinChunkSize: c.MinChunk})
	}
	results := make([]*ocispec.Descriptor, len(srcs))
	errs := make([]error, len(srcs))
	var interrupted atomic.Int64
	convertOne := func(i int) {
		if c.Retry {
			// an interrupted conversion: the context is cancelled almost immediately; the retry reuses the writer ref
			if c.RetryAfter < 0 {
				cctx, cancel := context.WithCancel(ctx)
				go func() { time.Sleep(time.Duration(i*50) * time.Microsecond); cancel() }()
				conv(cctx, cs, srcs[i].desc)
				cancel()
			} else {
				left := int64(c.RetryAfter)
				if _, err := conv(ctx, &flakyStore{Store: cs, left: &left}, srcs[i].desc); err != nil {
					interrupted.Add(1)
				}
			}
		}
		results[i], errs[i] = conv(ctx, cs, srcs[i].desc)
	}
	if c.Parallel {
		var wg sync.WaitGroup
		for i := range srcs {
			wg.Add(1)
			go func(i int) { defer wg.Done(); convertOne(i) }(i)
		}
		wg.Wait()
	} else {
		for i := range srcs {
			convertOne(i)
		}
	}
	wantComp := "gzip"
	if c.Converter == "zstdchunked" {
		wantComp = "zstd"
	}
	converted := map[digest.Digest]int{} // converted layer digest -> source index
	for i, d := range results {
		if errs[i] != nil {
			if c.Converter == "externaltoc-lossless" && (c.Layers[i].Comp == "estargz" || c.Layers[i].Comp == "zstd") {
				ev.Class("lossless-refuses-input")
				continue // documented: the lossless writer takes tar or tar.gz without a TOC; a refusal emits no descriptor
			}
			return pbt.Violf("conversion-failed", "layer %d (%s, %s): %v", i, c.Layers[i].Comp, srcs[i].desc.MediaType, errs[i])
		}
		if d == nil {
			return pbt.Violf("not-converted", "layer %d with media type %s was not converted", i, srcs[i].desc.MediaType)
		}
		blob, err := readBlob(ctx, cs, d.Digest)
		if err != nil {
			return pbt.Violf("blob-missing", "layer %d: the returned descriptor %s is not in the content store: %v", i, d.Digest, err)
		}
		if int64(len(blob)) != d.Size || digest.FromBytes(blob) != d.Digest {
			return pbt.Violf("descriptor-mismatch", "layer %d: descriptor says %s / %d bytes, the committed blob is %s / %d bytes", i, d.Digest, d.Size, digest.FromBytes(blob), len(blob))
		}
		dec, comp, err := decompressAny(blob)
		if err != nil {
			return pbt.Violf("not-a-valid-stream", "layer %d: %v", i, err)
		}
		if comp != wantComp {
			return pbt.Violf("wrong-compression", "layer %d: %s converter wrote a %s blob", i, c.Converter, comp)
		}
		mt := d.MediaType
		isGz := strings.HasSuffix(mt, "+gzip") || strings.HasSuffix(mt, ".gzip")
		isZs := strings.HasSuffix(mt, "+zstd") || strings.HasSuffix(mt, ".zstd")
		// containerd's own reading of the media type is the reference: it must be a layer type whose
		// compression is the blob's
		dc, dcErr := images.DiffCompression(ctx, mt)
		if (comp == "gzip") != isGz || (comp == "zstd") != isZs || !images.IsLayerType(mt) || dcErr != nil || dc != comp {
			return pbt.Violf("media-type-mismatch", "layer %d: the blob is %s compressed but the descriptor's media type is %q (source was %q; containerd reads it as layer type: %v, compression %q, %v)", i, comp, mt, srcs[i].desc.MediaType, images.IsLayerType(mt), dc, dcErr)
		}
		if got := d.Annotations[estargz.StoreUncompressedSizeAnnotation]; got != fmt.Sprint(len(dec)) {
			return pbt.Violf("uncompressed-size", "layer %d: uncompressed-size annotation %q, the blob decompresses to %d bytes", i, got, len(dec))
		}
		info, err := cs.Info(ctx, d.Digest)
		if err != nil {
			return pbt.Violf("blob-missing", "layer %d: %v", i, err)
		}
		if got := info.Labels["containerd.io/uncompressed"]; got != esgzref.Sha256(dec) && !c.PlainStore {
			return pbt.Violf("diffid-label", "layer %d: content label containerd.io/uncompressed = %q, sha256 of the decompressed blob is %s", i, got, esgzref.Sha256(dec))
		}
		converted[d.Digest] = i
		var ext []byte
		if finalize != nil {
			// verified below against the TOC image
		} else {
			p, err := esgzref.Parse(blob, ext)
			if err != nil {
				return pbt.Violf("unparsable", "layer %d: %v", i, err)
			}
			if got := d.Annotations[estargz.TOCJSONDigestAnnotation]; got != p.TOCDigest() {
				return pbt.Violf("toc-digest-annotation", "layer %d: TOC digest annotation %s, the blob's TOC hashes to %s", i, got, p.TOCDigest())
			}
			if _, err := p.Files(); err != nil {
				return pbt.Violf("toc-inconsistent", "layer %d: %v", i, err)
			}
			if c.Converter == "zstdchunked" {
				pos, hasPos := d.Annotations["io.containers.zstd-chunked.manifest-position"]
				sum, hasSum := d.Annotations["io.containers.zstd-chunked.manifest-checksum"]
				if !hasPos || !hasSum {
					return pbt.Violf("zstd-annotations-missing", "layer %d: zstd:chunked manifest annotations missing (position %v, checksum %v)", i, hasPos, hasSum)
				}
				f := blob[len(blob)-40:]
				off, clen, ulen := binary.LittleEndian.Uint64(f[0:]), binary.LittleEndian.Uint64(f[8:]), binary.LittleEndian.Uint64(f[16:])
				if want := fmt.Sprintf("%d:%d:%d:%d", off, clen, ulen, 1); pos != want {
					return pbt.Violf("zstd-position", "layer %d: manifest-position annotation %q, the footer says %q", i, pos, want)
				}
				if want := esgzref.Sha256(blob[off : off+clen]); sum != want {
					return pbt.Violf("zstd-checksum", "layer %d: manifest-checksum annotation %s, the compressed TOC hashes to %s", i, sum, want)
				}
			}
		}
		if c.Converter == "externaltoc-lossless" {
			if esgzref.Sha256(dec) != srcs[i].tarSum {
				return pbt.Violf("lossless-diffid", "layer %d: lossless conversion changed the DiffID: %s -> %s", i, srcs[i].tarSum, esgzref.Sha256(dec))
			}
		}
	}
	if finalize != nil {
		img, err := finalize(ctx, cs, "reg.example/repo/img:latest", nil)
		if err != nil {
			return pbt.Violf("finalize-failed", "%v", err)
		}
		mb, err := readBlob(ctx, cs, img.Target.Digest)
		if err != nil {
			return pbt.Violf("toc-image-missing", "%v", err)
		}
		var mf ocispec.Manifest
		if err := json.Unmarshal(mb, &mf); err != nil {
			return pbt.Violf("toc-image-manifest", "%v", err)
		}
		tocOf := map[digest.Digest]ocispec.Descriptor{}
		for _, l := range mf.Layers {
			tocOf[digest.Digest(l.Annotations["containerd.io/snapshot/stargz/layer.digest"])] = l
		}
		for ld, i := range converted {
			tl, ok := tocOf[ld]
			if !ok {
				return pbt.Violf("toc-image-incomplete", "converted layer %d (%s) has no entry in the TOC image (it maps %d of %d converted layers; parallel: %v)", i, ld, len(tocOf), len(converted), c.Parallel)
			}
			tocBlob, err := readBlob(ctx, cs, tl.Digest)
			if err != nil {
				return pbt.Violf("toc-blob-missing", "layer %d: %v", i, err)
			}
			blob, _ := readBlob(ctx, cs, ld)
			p, err := esgzref.Parse(blob, tocBlob)
			if err != nil {
				return pbt.Violf("toc-does-not-fit", "layer %d: the TOC mapped to it does not parse with it: %v", i, err)
			}
			if got := results[i].Annotations[estargz.TOCJSONDigestAnnotation]; got != p.TOCDigest() {
				return pbt.Violf("toc-digest-annotation", "layer %d: TOC digest annotation %s, the mapped external TOC hashes to %s", i, got, p.TOCDigest())
			}
			if _, err := p.Files(); err != nil {
				return pbt.Violf("toc-does-not-verify", "layer %d: the TOC mapped to it in the TOC image does not verify its chunks: %v", i, err)
			}
		}
	}
	nonGzip := false
	for _, l := range c.Layers {
		if l.Comp == "zstd" || l.Comp == "none" {
			nonGzip = true
		}
	}
	ev.Class("converter-" + c.Converter)
	ev.ClassIf(c.Parallel && len(c.Layers) >= 2, "parallel-layers")
	ev.ClassIf(nonGzip, "zstd-or-uncompressed-source")
	if c.Again && !c.PlainStore {
		for d := range converted {
			ml.Set(d, map[string]string{})
		}
		for i := range srcs {
			if results[i] == nil || errs[i] != nil {
				continue
			}
			first := results[i]
			d2, err := conv(ctx, cs, srcs[i].desc)
			if err != nil || d2 == nil {
				return pbt.Violf("conversion-failed", "layer %d: converting it a second time (the converted blob already exists): %v", i, err)
			}
			if d2.Digest != first.Digest {
				continue // not reproducible output: a new blob, nothing to compare
			}
			blob, _ := readBlob(ctx, cs, d2.Digest)
			dec, _, _ := decompressAny(blob)
			info, err := cs.Info(ctx, d2.Digest)
			if err != nil {
				return pbt.Violf("blob-missing", "layer %d (second conversion): %v", i, err)
			}
			if got := info.Labels["containerd.io/uncompressed"]; got != esgzref.Sha256(dec) {
				return pbt.Violf("diffid-label", "layer %d: converted again while the blob already existed without labels: content label containerd.io/uncompressed = %q, sha256 of the decompressed blob is %s", i, got, esgzref.Sha256(dec))
			}
			ev.Class("converted-again-onto-existing-blob")
		}
	}
	ev.ClassIf(c.Retry, "interrupted-and-retried")
	ev.ClassIf(interrupted.Load() > 0, "retried-after-partial-ingest")
	ev.NTIf((c.Parallel && len(c.Layers) >= 2) || nonGzip || c.Retry)
	_ = io.EOF
	return nil
}

func TestProp_Convert(t *testing.T) {
	pbt.Run(t, pbt.Options{Prop: "C19", Name: "Convert", Quick: 700, Thorough: 2100, Current: true, Timeout: 240 * time.Second,
		Rule: "rapid: 1-5 source layers (generated archives; uncompressed / gzip / zstd / already eStargz; OCI or Docker media types; optional per-layer options; with or without the labels of an unpacked layer) in containerd's local content store, converted by one converter instance {estargz, zstd:chunked, external TOC, external TOC lossless} sequentially or all in parallel, optionally after an interrupted first attempt on the same writer ref; " +
			"oracle: reads the committed blobs back: digest and size of the descriptor, stdlib decompression -> uncompressed-size annotation and containerd.io/uncompressed label, media type vs. magic bytes, independent TOC parse verifying every chunk under the annotated TOC digest, zstd:chunked position/checksum annotations vs. the footer, TOC image mapping every converted layer to a TOC that verifies it, lossless DiffID. " +
			"non-trivial = >= 2 layers converted in parallel, a zstd/uncompressed source, or a retried conversion. Run under the race detector in the thorough tier.",
	}, gen, run)
}
