// C17 — FUSE manager's persistent record equals its live mounts across re-init / restart.
package c17fusemgr

import (
	"context"
	"encoding/json"
	"fmt"
	"io"
	"os"
	"path/filepath"
	"reflect"
	"sort"
	"testing"
	"time"

	"github.com/containerd/stargz-snapshotter/fusemanager"
	pb "github.com/containerd/stargz-snapshotter/fusemanager/api"
	"github.com/containerd/stargz-snapshotter/snapshot"
	bolt "go.etcd.io/bbolt"
	"pgregory.net/rapid"
	"verifharness/lib/pbt"
	"verifharness/lib/recfs"
)

type Step struct {
	Op   string `json:"op"` // init mount check unmount restart resync
	MP   int    `json:"mp,omitempty"`
	Lab  int    `json:"labels,omitempty"`
	Cfg  string `json:"cfg,omitempty"`  // init: valid | undecodable | construct-fail
	Fail bool   `json:"fail,omitempty"` // the backend call of this step fails (mount / check / unmount; for init: the FailAt-th restore mount)
	At   int    `json:"fail_at,omitempty"`
}

type Case struct {
	Steps []Step `json:"steps"`
}

const nMP = 4

func gen(t *rapid.T) Case {
	var c Case
	n := rapid.IntRange(2, 25).Draw(t, "n")
	for i := 0; i < n; i++ {
		s := Step{Op: rapid.SampledFrom([]string{"init", "init", "mount", "mount", "mount", "check", "unmount", "unmount", "restart", "resync"}).Draw(t, "op")}
		if i == 0 && rapid.IntRange(0, 3).Draw(t, "startinit") > 0 {
			s.Op = "init"
		}
		s.MP = rapid.IntRange(0, nMP-1).Draw(t, "mp")
		s.Lab = rapid.IntRange(0, 5).Draw(t, "lab")
		s.Fail = rapid.IntRange(0, 4).Draw(t, "fail") == 0
		if s.Op == "init" || s.Op == "resync" {
			s.Cfg = rapid.SampledFrom([]string{"valid", "valid", "valid", "valid", "undecodable", "construct-fail"}).Draw(t, "cfg")
			s.At = rapid.IntRange(0, 2).Draw(t, "at")
		}
		c.Steps = append(c.Steps, s)
	}
	return c
}

func labelsOf(i, mp int) map[string]string {
	// label sets differ in their keys, not only in their values (a layer may or may not carry the prefetch,
	// URL and neighbouring-layers labels)
	l := map[string]string{"containerd.io/snapshot/remote/stargz.reference": fmt.Sprintf("reg.example/img%d:latest", mp), "verif.labelset": fmt.Sprint(i)}
	if i%2 == 1 {
		l["containerd.io/snapshot/remote/stargz.prefetch"] = fmt.Sprint(1000 + i)
	}
	if i%3 == 0 {
		l["containerd.io/snapshot/remote/urls"] = fmt.Sprintf("https://mirror%d.example/blob", i)
	}
	if (i+mp)%4 == 0 {
		l["containerd.io/snapshot/remote/stargz.layers"] = fmt.Sprintf("sha256:%064x", i+mp)
	}
	return l
}

type storeRec struct {
	Mountpoint string
	Labels     map[string]string
}

func readStore(path string) (map[string]storeRec, error) {
	tmp := path + ".read"
	in, err := os.Open(path)
	if err != nil {
		return nil, err
	}
	out, err := os.Create(tmp)
	if err != nil {
		in.Close()
		return nil, err
	}
	io.Copy(out, in)
	in.Close()
	out.Close()
	defer os.Remove(tmp)
	db, err := bolt.Open(tmp, 0o600, &bolt.Options{ReadOnly: true, Timeout: time.Second})
	if err != nil {
		return nil, err
	}
	defer db.Close()
	res := map[string]storeRec{}
	err = db.View(func(tx *bolt.Tx) error {
		return tx.ForEach(func(name []byte, b *bolt.Bucket) error {
			return b.ForEach(func(k, v []byte) error {
				var r storeRec
				if err := json.Unmarshal(v, &r); err != nil {
					return err
				}
				res[string(k)] = r
				return nil
			})
		})
	})
	return res, err
}

func run(c Case, ev *pbt.Ev) error {
	base, err := os.MkdirTemp("", "c17")
	if err != nil {
		return pbt.Inconclusive("%v", err)
	}
	defer os.RemoveAll(base)
	bindSrc := filepath.Join(base, "content")
	os.MkdirAll(bindSrc, 0o755)
	mps := make([]string, nMP)
	for i := range mps {
		mps[i] = filepath.Join(base, "mnt", fmt.Sprint(i))
		os.MkdirAll(mps[i], 0o755)
	}
	storePath := filepath.Join(base, "store", "fusestore.db")
	var (
		instances []*recfs.FS
		script    Step
		initFails int // countdown for failing restore mounts in the current Init
	)
	defer func() {
		for _, in := range instances {
			in.UnmountAll()
		}
	}()
	fusemanager.VerifWrapFileSystem = func(fs snapshot.FileSystem, err error) (snapshot.FileSystem, error) {
		if err != nil {
			return nil, err
		}
		if script.Cfg == "construct-fail" {
			return nil, fmt.Errorf("scripted filesystem construction failure")
		}
		in := recfs.New(fmt.Sprintf("instance-%d", len(instances)))
		in.BindSrc = bindSrc
		in.Decide = func(op, mp string, seq int) bool {
			if script.Op == "init" || script.Op == "resync-init" {
				if op == "mount" && script.Fail {
					if initFails == 0 {
						initFails = -1
						return true
					}
					initFails--
				}
				return false
			}
			return script.Fail
		}
		instances = append(instances, in)
		return in, nil
	}
	defer func() { fusemanager.VerifWrapFileSystem = nil }()
	ctx := context.Background()
	srv, err := fusemanager.NewFuseManager(ctx, nil, nil, storePath, "")
	if err != nil {
		return pbt.Inconclusive("NewFuseManager: %v", err)
	}
	validCfg, _ := json.Marshal(fusemanager.Config{})
	var (
		record       = map[string]map[string]string{} // what the store must hold
		live         = map[string]int{}               // mountpoint -> index of the instance serving it
		mountedWith  = map[string]map[string]string{} // mountpoint -> labels its running mount was made with
		initOK       = false                          // a successful Init happened in this manager process
		initTried    = false
		lastInitErr  = false
		reinitWithLv = false
		sawFailure   = false
	)
	doInit := func(i int, s Step) error {
		nInst := len(instances)
		initFails = s.At
		cfg := validCfg
		if s.Cfg == "undecodable" {
			cfg = []byte("{not json")
		}
		_, err := srv.Init(ctx, &pb.InitRequest{Root: filepath.Join(base, "root"), Config: cfg})
		initTried = true
		lastInitErr = err != nil
		if len(live) > 0 {
			reinitWithLv = true
		}
		created := len(instances) > nInst
		if s.Cfg != "valid" {
			if err == nil {
				return pbt.Violf("init-accepted-bad-config", "step %d: Init with a %s configuration reported success", i, s.Cfg)
			}
			sawFailure = true
			return nil
		}
		if !created {
			return pbt.Violf("init-no-filesystem", "step %d: Init with a valid configuration did not construct a filesystem (err %v)", i, err)
		}
		cur := len(instances) - 1
		// restore: every recorded mountpoint that is not served already is mounted on the new instance, in key order,
		// until the scripted failure
		var keys []string
		for mp := range record {
			keys = append(keys, mp)
		}
		sort.Strings(keys)
		failedAt := -1
		n := 0
		for _, mp := range keys {
			if _, served := live[mp]; served {
				continue
			}
			if s.Fail && n == s.At {
				failedAt = n
				break
			}
			live[mp] = cur
			mountedWith[mp] = record[mp] // restoration uses the recorded labels
			n++
		}
		if failedAt >= 0 {
			sawFailure = true
			if err == nil {
				return pbt.Violf("init-hides-restore-failure", "step %d: restoring a recorded mountpoint failed during Init but Init reported success", i)
			}
		} else if err != nil {
			return pbt.Violf("init-failed", "step %d: Init with a valid configuration and a healthy backend failed: %v", i, err)
		}
		initOK = true
		return nil
	}
	for i, s := range c.Steps {
		script = s
		mp := mps[s.MP]
		switch s.Op {
		case "init":
			if err := doInit(i, s); err != nil {
				return err
			}
		case "resync":
			// the snapshotter restarted: it re-initialises the manager and asks for all its mounts again
			script.Op = "init"
			if err := doInit(i, s); err != nil {
				return err
			}
			script = Step{Op: "resync-mount"}
			var keys []string
			for m := range live {
				keys = append(keys, m)
			}
			sort.Strings(keys)
			for _, m := range keys {
				before := len(instances[live[m]].Events())
				if _, err := srv.Mount(ctx, &pb.MountRequest{Mountpoint: m, Labels: record[m]}); err != nil && initOK {
					return pbt.Violf("remount-failed", "step %d: re-requesting the live mountpoint %s after re-initialisation failed: %v", i, m, err)
				}
				for k, in := range instances {
					evs := in.Events()
					from := 0
					if k == live[m] {
						from = before
					}
					for _, e := range evs[from:] {
						_ = e
					}
				}
			}
			ev.Class("snapshotter-restart")
		case "mount":
			labels := labelsOf(s.Lab, s.MP)
			_, err := srv.Mount(ctx, &pb.MountRequest{Mountpoint: mp, Labels: labels})
			if !initTried {
				if err == nil {
					return pbt.Violf("request-before-init", "step %d: Mount before any Init succeeded", i)
				}
				continue
			}
			if !initOK {
				if err == nil {
					return pbt.Violf("request-without-filesystem", "step %d: Mount succeeded although no Init has succeeded in this manager", i)
				}
				continue
			}
			if _, served := live[mp]; served {
				if err != nil {
					return pbt.Violf("mount-existing-failed", "step %d: Mount of the already served %s failed: %v", i, mp, err)
				}
				record[mp] = labels // the record is rewritten with the request's labels
			} else if s.Fail {
				sawFailure = true
				if err == nil {
					return pbt.Violf("mount-hides-failure", "step %d: backend mount failed but Mount reported success", i)
				}
			} else {
				if err != nil {
					return pbt.Violf("mount-failed", "step %d: Mount with a healthy backend failed: %v", i, err)
				}
				live[mp] = len(instances) - 1
				record[mp] = labels
				mountedWith[mp] = labels
			}
		case "check":
			_, err := srv.Check(ctx, &pb.CheckRequest{Mountpoint: mp})
			if !initTried && err == nil {
				return pbt.Violf("request-before-init", "step %d: Check before any Init succeeded", i)
			}
			if idx, served := live[mp]; served && initTried {
				evs := instances[idx].Events()
				if len(evs) == 0 || evs[len(evs)-1].Op != "check" || evs[len(evs)-1].MP != mp {
					return pbt.Violf("check-wrong-instance", "step %d: Check(%s) did not reach the filesystem instance %d that mounted it", i, mp, idx)
				}
				if (err != nil) != s.Fail {
					return pbt.Violf("check-result", "step %d: Check(%s): backend fails=%v, reported err=%v", i, mp, s.Fail, err)
				}
			} else if err == nil && initTried {
				return pbt.Violf("check-unknown-ok", "step %d: Check of %s, which is not served, reported success", i, mp)
			}
		case "unmount":
			_, err := srv.Unmount(ctx, &pb.UnmountRequest{Mountpoint: mp})
			if !initTried {
				if err == nil {
					return pbt.Violf("request-before-init", "step %d: Unmount before any Init succeeded", i)
				}
				continue
			}
			if idx, served := live[mp]; served {
				evs := instances[idx].Events()
				if len(evs) == 0 || evs[len(evs)-1].Op != "unmount" || evs[len(evs)-1].MP != mp {
					return pbt.Violf("unmount-wrong-instance", "step %d: Unmount(%s) did not reach the filesystem instance %d that mounted it", i, mp, idx)
				}
				if s.Fail {
					sawFailure = true
					if err == nil {
						return pbt.Violf("unmount-hides-failure", "step %d: backend unmount failed but Unmount reported success", i)
					}
				} else {
					if err != nil {
						return pbt.Violf("unmount-failed", "step %d: Unmount with a healthy backend failed: %v", i, err)
					}
					delete(live, mp)
					delete(record, mp)
				}
			} else if !initOK {
				if err == nil {
					return pbt.Violf("request-without-filesystem", "step %d: Unmount succeeded although no Init has succeeded in this manager", i)
				}
			} else if err != nil {
				return pbt.Violf("unmount-unknown-failed", "step %d: Unmount of %s, which is neither recorded as served nor mounted, failed: %v", i, mp, err)
			}
		case "restart":
			// the manager process dies; the store file survives; its mounts are gone with it
			cp := storePath + ".next"
			in, err := os.Open(storePath)
			if err != nil {
				return pbt.Inconclusive("%v", err)
			}
			out, _ := os.Create(cp)
			io.Copy(out, in)
			in.Close()
			out.Close()
			srv.Close(ctx)
			os.Rename(cp, storePath)
			for _, in := range instances {
				in.UnmountAll()
				in.Forget()
			}
			srv, err = fusemanager.NewFuseManager(ctx, nil, nil, storePath, "")
			if err != nil {
				return pbt.Violf("restart-failed", "step %d: NewFuseManager on the surviving store failed: %v", i, err)
			}
			reinitWithLv = reinitWithLv || len(live) > 0
			live = map[string]int{}
			initOK, initTried, lastInitErr = false, false, false
			ev.Class("manager-restart")
			continue
		}
		// ---- invariants at the quiescent point
		st, err := readStore(storePath)
		if err != nil {
			return pbt.Inconclusive("reading the store: %v", err)
		}
		var got, want []string
		for k := range st {
			got = append(got, k)
		}
		for k := range record {
			want = append(want, k)
		}
		sort.Strings(got)
		sort.Strings(want)
		if !reflect.DeepEqual(got, want) {
			return pbt.Violf("store-vs-mounts", "step %d (%s): the store records %v, the manager should be recording %v (live %v, last Init failed: %v)", i, s.Op, got, want, keysOf(live), lastInitErr)
		}
		for k, r := range st {
			if !reflect.DeepEqual(r.Labels, record[k]) {
				return pbt.Violf("store-labels", "step %d: the record of %s carries labels %v, want %v", i, k, r.Labels, record[k])
			}
		}
		// every live mountpoint is live in exactly one instance: the one that mounted it
		for m, idx := range live {
			for k, in := range instances {
				_, has := in.Live()[m]
				if has != (k == idx) {
					return pbt.Violf("mount-instance", "step %d (%s): %s should be served by instance %d only; instance %d has it: %v", i, s.Op, m, idx, k, has)
				}
			}
			// (a repeated Mount request rewrites the record but not the running mount)
			if got := instances[idx].Live()[m]; !reflect.DeepEqual(got, mountedWith[m]) {
				return pbt.Violf("mount-labels", "step %d (%s): %s is mounted with labels %v, it should have been mounted with %v", i, s.Op, m, got, mountedWith[m])
			}
		}
		for k, in := range instances {
			for m := range in.Live() {
				if _, ok := live[m]; !ok {
					return pbt.Violf("unexpected-mount", "step %d (%s): instance %d serves %s which should not be mounted", i, s.Op, k, m)
				}
			}
		}
		// unless the last Init failed, the record equals the live mounts
		if !lastInitErr && initOK && len(record) != len(live) {
			return pbt.Violf("record-without-mount", "step %d (%s): %d mountpoints are recorded, %d are live, and the last initialisation reported success", i, s.Op, len(record), len(live))
		}
		ev.Steps++
	}
	srv.Close(ctx)
	ev.ClassIf(reinitWithLv, "reinit-or-restart-with-live-mounts")
	ev.ClassIf(sawFailure, "failure-injected")
	ev.NTIf(reinitWithLv && sawFailure)
	return nil
}

func keysOf(m map[string]int) []string {
	var o []string
	for k := range m {
		o = append(o, filepath.Base(k))
	}
	sort.Strings(o)
	return o
}

func TestProp_Manager(t *testing.T) {
	pbt.Run(t, pbt.Options{Prop: "C17", Name: "Manager", Quick: 2000, Thorough: 60000, Current: true, Timeout: 120 * time.Second,
		Rule: "rapid: 2-25 steps of Init(valid | undecodable config | filesystem construction failure; optionally the n-th restore mount fails) / Mount(mountpoint, label set) / Check / Unmount (backend call may fail) / manager restart (new Server on the surviving store file, mounts gone) / snapshotter restart (Init followed by Mount of every live mountpoint) over 4 mountpoints; " +
			"every Init installs a fresh recording filesystem (real bind mounts); oracle after every step: keys and labels of the store (read from a copy of the bolt file) == recorded mountpoints of the model (live ones, plus those whose restoration failed in an Init that reported the error); each live mountpoint is live in exactly the instance that first mounted it and Check/Unmount reach that instance; " +
			"mounts after a re-Init use the newest instance; restart + Init mounts every recorded mountpoint once; Unmount of a neither recorded nor mounted path succeeds; requests before (a successful) initialisation fail cleanly. non-trivial = re-Init/restart while mounts were live and at least one injected failure",
	}, gen, run)
}
