// C03 — built blobs unpack like the input tar and index themselves consistently.
package c03build

import (
	"archive/tar"
	"bytes"
	"fmt"
	"reflect"
	"sort"
	"strings"
	"testing"
	"time"

	"pgregory.net/rapid"
	"verifharness/lib/esgzbuild"
	"verifharness/lib/esgzref"
	"verifharness/lib/pbt"
	"verifharness/lib/tarmodel"
)

type Case struct {
	Archive   tarmodel.Archive `json:"archive"`
	Opts      esgzbuild.Opts   `json:"opts"`
	Producer  string           `json:"producer"` // build | writer | lossless
	InputWrap string           `json:"input_wrap"`
	Rebuild   bool             `json:"rebuild,omitempty"`
	// RecordPad: the input tar ends with zero blocks up to a multiple of 10240 bytes, as GNU tar and bsdtar write it
	RecordPad bool `json:"record_padding,omitempty"`
}

const (
	prefetchLandmark   = ".prefetch.landmark"
	noPrefetchLandmark = ".no.prefetch.landmark"
	tocName            = "stargz.index.json"
)

func gen(t *rapid.T) Case {
	var c Case
	c.Opts = esgzbuild.GenOpts(t, []string{"gzip", "gzip", "zstd", "external"})
	cs := c.Opts.ChunkSize
	if cs == 0 {
		cs = 64
	}
	c.Archive = tarmodel.Gen(t, tarmodel.GenOpts{MaxEntries: 14, ChunkSize: cs, Hardlinks: true, Devices: true, Dups: true, DupLinks: true, Spellings: true, Xattrs: true, RootEntry: true, BigIDs: true, ManyChunks: true})
	c.Producer = rapid.SampledFrom([]string{"build", "build", "build", "writer", "lossless"}).Draw(t, "producer")
	c.RecordPad = rapid.IntRange(0, 2).Draw(t, "recordpad") == 0
	// reserved names in the input
	if rapid.IntRange(0, 3).Draw(t, "reserved") == 0 {
		names := []string{prefetchLandmark, noPrefetchLandmark, "./" + prefetchLandmark, "a/" + noPrefetchLandmark, tocName, "./" + tocName, "a/" + tocName}
		n := rapid.IntRange(1, 2).Draw(t, "nres")
		for i := 0; i < n; i++ {
			e := tarmodel.Entry{Name: rapid.SampledFrom(names).Draw(t, "resname"), Type: "reg", Mode: 0o644, Size: rapid.IntRange(0, 5).Draw(t, "ressize"), Seed: 7, MTime: 1600000000}
			pos := rapid.IntRange(0, len(c.Archive.Entries)).Draw(t, "respos")
			c.Archive.Entries = append(c.Archive.Entries[:pos], append([]tarmodel.Entry{e}, c.Archive.Entries[pos:]...)...)
		}
	}
	if c.Producer == "build" {
		// some prioritized files (existing names; ordering itself is C14's business)
		// (reserved names are dropped by the builder; files below implicit parents are C14's business)
		var names []string
		explicit := map[string]bool{"": true}
		for _, e := range c.Archive.Entries {
			explicit[tarmodel.Clean(e.Name)] = true
		}
		for _, e := range c.Archive.Entries {
			cn := tarmodel.Clean(e.Name)
			ok := cn != prefetchLandmark && cn != noPrefetchLandmark && cn != tocName && cn != ""
			for d := cn; ok && strings.Contains(d, "/"); {
				d = d[:strings.LastIndex(d, "/")]
				ok = explicit[d]
			}
			if ok {
				names = append(names, e.Name)
			}
		}
		if len(names) > 0 && rapid.Bool().Draw(t, "prio") {
			c.Opts.Prioritized = rapid.SliceOfN(rapid.SampledFrom(names), 1, 3).Draw(t, "prioritized")
		}
		c.InputWrap = rapid.SampledFrom([]string{"plain", "plain", "gzip", "gzip-multi", "zstd"}).Draw(t, "wrap")
		c.Rebuild = rapid.IntRange(0, 5).Draw(t, "rebuild") == 0
	} else {
		c.InputWrap = rapid.SampledFrom([]string{"plain", "plain", "gzip"}).Draw(t, "wrap")
		c.Opts.Workers = 0
	}
	return c
}

func typeOf(h *tar.Header) string {
	switch h.Typeflag {
	case tar.TypeReg:
		return "reg"
	case tar.TypeDir:
		return "dir"
	case tar.TypeSymlink:
		return "symlink"
	case tar.TypeLink:
		return "hardlink"
	case tar.TypeChar:
		return "char"
	case tar.TypeBlock:
		return "block"
	case tar.TypeFifo:
		return "fifo"
	}
	return "?"
}

func hdrDiff(a, b *tar.Header) string {
	va, vb := reflect.ValueOf(*a), reflect.ValueOf(*b)
	var d []string
	for i := 0; i < va.NumField(); i++ {
		if !reflect.DeepEqual(va.Field(i).Interface(), vb.Field(i).Interface()) {
			d = append(d, fmt.Sprintf("%s: %v != %v", va.Type().Field(i).Name, va.Field(i).Interface(), vb.Field(i).Interface()))
		}
	}
	return strings.Join(d, "; ")
}

// checkBlob applies oracles 1 and 2 to one produced blob.
func checkBlob(c Case, input []tarmodel.RawEntry, res *esgzbuild.Built, producer string, prioritized bool, ev *pbt.Ev) error {
	kind := c.Opts.Compression
	// ---- oracle 1: eStargz-agnostic runtime
	dec, err := esgzref.DecompressAll(res.Blob, kind)
	if err != nil {
		return pbt.Violf("not-a-valid-stream", "%s blob does not decompress with the standard library: %v", kind, err)
	}
	outEnts, err := tarmodel.ReadTar(dec)
	if err != nil {
		return pbt.Violf("not-a-valid-tar", "decompressed stream is not a tar archive: %v", err)
	}
	// expected entries
	var want []tarmodel.RawEntry
	switch producer {
	case "build":
		want = tarmodel.Dedup(input, map[string]bool{prefetchLandmark: true, noPrefetchLandmark: true, tocName: true})
	default:
		for _, e := range input {
			if e.Clean != tocName {
				want = append(want, e)
			}
		}
	}
	// strip documented additions from the output
	var got []tarmodel.RawEntry
	landmarks := 0
	for i, e := range outEnts {
		if kind == "gzip" && i == len(outEnts)-1 && e.Hdr.Name == tocName {
			continue
		}
		if e.Hdr.Name == tocName {
			return pbt.Violf("toc-entry-misplaced", "entry %d/%d of the decompressed tar is named %s (kind %s)", i, len(outEnts), tocName, kind)
		}
		if producer == "build" && (e.Hdr.Name == prefetchLandmark || e.Hdr.Name == noPrefetchLandmark) {
			landmarks++
			wantLm := noPrefetchLandmark
			if prioritized {
				wantLm = prefetchLandmark
			}
			if e.Hdr.Name != wantLm {
				return pbt.Violf("wrong-landmark", "landmark %q, want %q", e.Hdr.Name, wantLm)
			}
			if e.Hdr.Typeflag != tar.TypeReg || len(e.Content) != 1 || e.Content[0] != 0xf {
				return pbt.Violf("landmark-content", "landmark entry %+v content %v", e.Hdr, e.Content)
			}
			continue
		}
		got = append(got, e)
	}
	// (lossless mode keeps the input's end-of-archive blocks, so a tar reader stops before the TOC member)
	tocVisible := kind == "gzip" && producer != "lossless"
	if tocVisible && (len(outEnts) == 0 || outEnts[len(outEnts)-1].Hdr.Name != tocName) {
		return pbt.Violf("toc-entry-missing", "gzip eStargz: last tar entry is not %s", tocName)
	}
	if producer == "build" && landmarks != 1 {
		return pbt.Violf("landmark-count", "%d landmark entries in the output, want exactly 1", landmarks)
	}
	if len(got) != len(want) {
		return pbt.Violf("entry-count", "output has %d entries (without additions), input describes %d: out=%v in=%v", len(got), len(want), names(got), names(want))
	}
	// an eStargz-agnostic runtime unpacks the stream in order: a hard link whose target has not been unpacked
	// yet cannot be created (the inputs never have such a link; where the rest ends up is C14's business)
	pos := map[string]int{}
	for i, e := range got {
		pos[e.Clean] = i
	}
	for i, e := range got {
		if producer == "build" && e.Hdr.Typeflag == tar.TypeLink {
			tgt := tarmodel.Clean(e.Hdr.Linkname)
			if j, ok := pos[tgt]; ok && j > i {
				ev.Class("hardlink-order-checked")
				return pbt.Violf("hardlink-before-target", "entry %d %q is a hard link to %q, which only comes at position %d of the output: the stream cannot be unpacked in order (output order %v)", i, e.Hdr.Name, e.Hdr.Linkname, j, names(got))
			}
			ev.Class("hardlink-order-checked")
		}
	}
	if producer == "build" {
		// order is C14's business: compare as sets by clean name (unique after de-duplication)
		sort.SliceStable(got, func(i, j int) bool { return got[i].Clean < got[j].Clean })
		sort.SliceStable(want, func(i, j int) bool { return want[i].Clean < want[j].Clean })
	}
	for i := range want {
		if !reflect.DeepEqual(got[i].Hdr, want[i].Hdr) {
			return pbt.Violf("header-changed", "entry %q: tar header differs from the input: %s", want[i].Hdr.Name, hdrDiff(got[i].Hdr, want[i].Hdr))
		}
		if !bytes.Equal(got[i].Content, want[i].Content) {
			return pbt.Violf("content-changed", "entry %q: content differs from the input (%d vs %d bytes)", want[i].Hdr.Name, len(got[i].Content), len(want[i].Content))
		}
	}
	// ---- oracle 2: documented parse
	p, err := esgzref.Parse(res.Blob, res.ExternalTOC)
	if err != nil {
		return pbt.Violf("unparsable", "documented footer/TOC parse fails: %v", err)
	}
	if p.TOCDigest() != res.TOCDigest {
		return pbt.Violf("toc-digest", "reported TOC digest %s, sha256(TOC JSON) = %s", res.TOCDigest, p.TOCDigest())
	}
	if d := esgzref.Sha256(dec); d != res.DiffID {
		return pbt.Violf("diffid", "reported DiffID %s, sha256(decompressed stream) = %s", res.DiffID, d)
	}
	if producer == "build" && res.UncompressedSize != int64(len(dec)) {
		return pbt.Violf("uncompressed-size", "UncompressedSize()=%d, decompressed stream is %d bytes", res.UncompressedSize, len(dec))
	}
	files, err := p.Files()
	if err != nil {
		return pbt.Violf("toc-inconsistent", "%v", err)
	}
	// TOC entries (without chunks) correspond one to one, in order, to the tar entries of the output
	var tocEnts []*esgzref.Entry
	for _, e := range p.TOC.Entries {
		if e.Type != "chunk" {
			tocEnts = append(tocEnts, e)
		}
	}
	var outNoTOC []tarmodel.RawEntry
	for i, e := range outEnts {
		if kind == "gzip" && i == len(outEnts)-1 && e.Hdr.Name == tocName {
			continue
		}
		outNoTOC = append(outNoTOC, e)
	}
	if len(tocEnts) != len(outNoTOC) {
		return pbt.Violf("toc-entry-count", "TOC lists %d entries, the tar stream has %d", len(tocEnts), len(outNoTOC))
	}
	chunk := int64(c.Opts.EffectiveChunk())
	multi := false
	for i, te := range tocEnts {
		h := outNoTOC[i].Hdr
		if te.Name != h.Name || te.Type != typeOf(h) {
			return pbt.Violf("toc-entry-mismatch", "TOC entry %d is %s %q, tar entry is %s %q", i, te.Type, te.Name, typeOf(h), h.Name)
		}
		if te.Mode != h.Mode || te.UID != h.Uid || te.GID != h.Gid {
			return pbt.Violf("toc-attr-mismatch", "TOC entry %q mode/uid/gid %o/%d/%d, tar %o/%d/%d", te.Name, te.Mode, te.UID, te.GID, h.Mode, h.Uid, h.Gid)
		}
		switch te.Type {
		case "reg":
			if te.Size != h.Size {
				return pbt.Violf("toc-attr-mismatch", "TOC entry %q size %d, tar %d", te.Name, te.Size, h.Size)
			}
		case "symlink", "hardlink":
			if te.LinkName != h.Linkname {
				return pbt.Violf("toc-attr-mismatch", "TOC entry %q linkName %q, tar %q", te.Name, te.LinkName, h.Linkname)
			}
		case "char", "block":
			if int64(te.DevMajor) != h.Devmajor || int64(te.DevMinor) != h.Devminor {
				return pbt.Violf("toc-attr-mismatch", "TOC entry %q dev %d:%d, tar %d:%d", te.Name, te.DevMajor, te.DevMinor, h.Devmajor, h.Devminor)
			}
		}
		wantX := map[string][]byte{}
		for k, v := range h.PAXRecords {
			if strings.HasPrefix(k, "SCHILY.xattr.") {
				wantX[strings.TrimPrefix(k, "SCHILY.xattr.")] = []byte(v)
			}
		}
		if len(wantX) != len(te.Xattrs) {
			return pbt.Violf("toc-xattr-mismatch", "TOC entry %q has xattrs %v, tar %v", te.Name, te.Xattrs, wantX)
		}
		for k, v := range wantX {
			if gv, ok := te.Xattrs[k]; !ok || !bytes.Equal(gv, v) {
				return pbt.Violf("toc-xattr-mismatch", "TOC entry %q xattr %q = %q, tar %q", te.Name, k, gv, v)
			}
		}
		if te.ModTime != "" {
			mt, err := time.Parse(time.RFC3339, te.ModTime)
			if err != nil {
				return pbt.Violf("toc-modtime", "TOC entry %q modtime %q does not parse", te.Name, te.ModTime)
			}
			if d := mt.Sub(h.ModTime); d <= -time.Second || d >= time.Second {
				return pbt.Violf("toc-modtime", "TOC entry %q modtime %v, tar %v", te.Name, mt, h.ModTime)
			}
		} else if h.ModTime.Unix() != 0 && !h.ModTime.IsZero() {
			return pbt.Violf("toc-modtime", "TOC entry %q has no modtime, tar has %v", te.Name, h.ModTime)
		}
		if te.Type == "reg" {
			f := files[te.Name]
			// the map is keyed by name: with duplicate names (writer mode) it holds the last one
			if f != nil && f.Entry == te {
				if !bytes.Equal(f.Content, outNoTOC[i].Content) {
					return pbt.Violf("toc-content-mismatch", "file %q reassembled from chunks differs from the tar stream", te.Name)
				}
				for j, ch := range f.Chunks {
					sz := ch.ChunkSize
					if sz == 0 {
						sz = te.Size - ch.ChunkOffset
					}
					if sz > chunk || (j < len(f.Chunks)-1 && sz != chunk) {
						return pbt.Violf("chunk-size", "file %q chunk %d has %d bytes, chunk size is %d", te.Name, j, sz, chunk)
					}
					if c.Opts.MinChunkSize == 0 && ch.InnerOffset != 0 {
						return pbt.Violf("inner-offset", "file %q chunk %d has innerOffset %d without min-chunk-size", te.Name, j, ch.InnerOffset)
					}
					if ch.InnerOffset > 0 {
						ev.Class("inner-offset-stream")
					}
				}
				if len(f.Chunks) > 1 {
					multi = true
				}
				if te.Size > 0 && (te.Size%chunk <= 1 || te.Size%chunk == chunk-1) {
					ev.Class("size-at-chunk-edge")
				}
			}
		}
	}
	ev.ClassIf(multi, "multi-chunk")
	return nil
}

func names(es []tarmodel.RawEntry) []string {
	var o []string
	for _, e := range es {
		o = append(o, e.Hdr.Name)
	}
	return o
}

func run(c Case, ev *pbt.Ev) error {
	tarBytes, err := c.Archive.Tar()
	if err != nil {
		return pbt.Inconclusive("generator produced an archive the standard library refuses: %v", err)
	}
	if c.RecordPad && len(tarBytes)%10240 != 0 {
		tarBytes = append(tarBytes, make([]byte, 10240-len(tarBytes)%10240)...)
		ev.Class("input-with-record-padding")
	}
	input, err := tarmodel.ReadTar(tarBytes)
	if err != nil {
		return pbt.Inconclusive("stdlib cannot read back its own tar: %v", err)
	}
	in := tarBytes
	switch c.InputWrap {
	case "gzip":
		in = esgzbuild.GzipBytes(tarBytes, 1)
	case "gzip-multi":
		in = esgzbuild.GzipBytes(tarBytes, 3)
	case "zstd":
		in = esgzbuild.ZstdBytes(tarBytes)
	}
	hasTOCName := false
	for _, e := range input {
		if e.Clean == tocName {
			hasTOCName = true
		}
	}
	ev.Class("producer-" + c.Producer)
	ev.Class("compression-" + c.Opts.Compression)
	ev.Class("wrap-" + c.InputWrap)
	var res *esgzbuild.Built
	switch c.Producer {
	case "build":
		res, err = esgzbuild.Build(in, c.Opts)
	case "writer":
		res, err = esgzbuild.Write(in, c.Opts, false)
	case "lossless":
		res, err = esgzbuild.Write(in, c.Opts, true)
		if hasTOCName {
			if err == nil {
				return pbt.Violf("lossless-toc-accepted", "lossless append accepted an input that already contains %s (documented to be refused)", tocName)
			}
			ev.Class("lossless-refused-toc")
			return nil
		}
	}
	if err != nil {
		return pbt.Violf("build-failed", "%s failed on a valid input tar: %v", c.Producer, err)
	}
	if err := checkBlob(c, input, res, c.Producer, len(c.Opts.Prioritized) > 0, ev); err != nil {
		return err
	}
	if c.Producer == "lossless" {
		dec, _ := esgzref.DecompressAll(res.Blob, c.Opts.Compression)
		payload := dec
		if c.Opts.Compression == "gzip" {
			// strip the TOC member: decompress only blob[:tocOffset]
			p, _ := esgzref.Parse(res.Blob, nil)
			payload, err = esgzref.DecompressAll(res.Blob[:p.TOCOffset], "gzip")
			if err != nil {
				return pbt.Violf("lossless", "payload before the TOC does not decompress: %v", err)
			}
		}
		if !bytes.Equal(payload, tarBytes) {
			return pbt.Violf("lossless", "lossless mode: decompressed payload (%d bytes) differs from the input tar (%d bytes)", len(payload), len(tarBytes))
		}
		ev.NT()
	}
	if c.Producer == "build" {
		// differential: workers=1 and the given worker count give the same decompressed tar modulo nothing
		if c.Opts.Workers > 1 && c.Opts.MinChunkSize == 0 {
			o1 := c.Opts
			o1.Workers = 1
			r1, err := esgzbuild.Build(in, o1)
			if err != nil {
				return pbt.Violf("build-failed", "Build with 1 worker failed: %v", err)
			}
			d1, _ := esgzref.DecompressAll(r1.Blob, o1.Compression)
			dk, _ := esgzref.DecompressAll(res.Blob, c.Opts.Compression)
			if c.Opts.Compression == "gzip" {
				// the TOC (last tar entry) legitimately differs in chunk offsets: compare the stream before it
				p1, _ := esgzref.Parse(r1.Blob, nil)
				pk, _ := esgzref.Parse(res.Blob, nil)
				d1, _ = esgzref.DecompressAll(r1.Blob[:p1.TOCOffset], "gzip")
				dk, _ = esgzref.DecompressAll(res.Blob[:pk.TOCOffset], "gzip")
			}
			if !bytes.Equal(d1, dk) {
				return pbt.Violf("workers-differ", "Build with %d workers and with 1 worker decompress to different tar streams", c.Opts.Workers)
			}
			ev.Class("parallel-build")
			ev.NTIf(len(input) >= 3)
		}
		if c.Rebuild {
			// already-eStargz input
			o2 := c.Opts
			o2.Prioritized = nil
			r2, err := esgzbuild.Build(res.Blob, o2)
			if c.Opts.Compression == "zstd" || c.Opts.Compression == "gzip" || c.Opts.Compression == "external" {
				if err != nil {
					return pbt.Violf("rebuild-failed", "Build on an already-%s-eStargz input failed: %v", c.Opts.Compression, err)
				}
				c2 := c
				c2.Opts = o2
				if err := checkBlob(c2, tarmodel.Dedup(input, map[string]bool{}), r2, "build", false, ev); err != nil {
					return fmt.Errorf("rebuild of an eStargz input: %w", err)
				}
				ev.Class("estargz-input")
				ev.NT()
			}
		}
	}
	ev.NTIf(ev.Has("size-at-chunk-edge") || ev.Has("inner-offset-stream"))
	return nil
}

func TestProp_RoundTrip(t *testing.T) {
	pbt.Run(t, pbt.Options{Prop: "C03", Name: "RoundTrip", Quick: 3000, Thorough: 30000,
		Rule: "rapid: archive (<=14 entries: reg sizes around chunk multiples, dirs, symlinks, hardlink chains, devices, fifos, duplicate names, ./ ../ / spellings, PAX xattrs, big ids, sub-second and zero mtimes, " +
			"reserved names) x {Build, Writer.AppendTar, AppendTarLossLess} x {gzip levels, zstd:chunked levels, external TOC} x chunk size x min-chunk-size x workers 1-12 x input {plain, gzip, multi-member gzip, zstd, already eStargz}; " +
			"oracles: stdlib decompress+untar equals the input entries header-for-header (reflect.DeepEqual) plus documented additions; independent documented parse re-derives every chunk digest, file digest, TOC digest, DiffID; lossless byte equality; " +
			"workers=k vs 1 differential. non-trivial = file size within +-1 of a chunk multiple, shared min-chunk stream, parallel build with >=3 entries, eStargz input, or lossless",
	}, gen, run)
}
