// evmerge merges the per-shard evidence files written by lib/pbt into one
// /verif/evidence/<ID>.json (schema: /root/.vp/EVIDENCE.schema.json).
package main

import (
	"encoding/binary"
	"encoding/json"
	"flag"
	"fmt"
	"os"
	"path/filepath"
	"sort"
	"strings"
)

type shard struct {
	Prop       string             `json:"prop"`
	Test       string             `json:"test"`
	Tier       string             `json:"tier"`
	Shard      int                `json:"shard"`
	Requested  int                `json:"requested"`
	Executed   int                `json:"executed"`
	NonTrivial int                `json:"nontrivial"`
	Classes    map[string]int     `json:"classes"`
	Skipped    int                `json:"skipped_commands"`
	Steps      int                `json:"executed_commands"`
	Excluded   map[string]int     `json:"excluded_by_known_finding"`
	Samples    []json.RawMessage  `json:"samples"`
	Rule       string             `json:"rule"`
	Floors     map[string]float64 `json:"floors"`
	Failed     bool               `json:"failed"`
	WallS      float64            `json:"wall_s"`
	FPFile     string             `json:"fp_file"`
}

type perTest struct {
	Evaluations        int            `json:"evaluations"`
	Requested          int            `json:"requested"`
	DistinctNonTrivial int            `json:"distinct_nontrivial"`
	Classes            map[string]int `json:"classes"`
	Skipped            int            `json:"skipped_commands"`
	Steps              int            `json:"executed_commands"`
	Excluded           map[string]int `json:"excluded_by_known_finding,omitempty"`
	Rule               string         `json:"rule"`
	Shards             int            `json:"shards"`
	fps                map[uint64]struct{}
	floors             map[string]float64
}

func main() {
	var (
		dir        = flag.String("dir", "", "directory with evid-*.json shard files")
		out        = flag.String("out", "", "evidence file to write")
		prop       = flag.String("prop", "", "property id")
		tier       = flag.String("tier", "quick", "tier")
		seed       = flag.Int64("seed", 0, "VERIF_SEED")
		level      = flag.String("level", "exploration", "level")
		wall       = flag.Float64("wall", 0, "wall seconds")
		violations = flag.Int("violations", 0, "number of violations")
		extra      = flag.String("extra", "", "JSON file with extra coverage keys / assumptions")
	)
	flag.Parse()
	files, _ := filepath.Glob(filepath.Join(*dir, "evid-*.json"))
	sub, _ := filepath.Glob(filepath.Join(*dir, "*", "evid-*.json"))
	files = append(files, sub...)
	sort.Strings(files)
	tests := map[string]*perTest{}
	samples := []json.RawMessage{} // (never null in the evidence file)
	problems := []string{}
	for _, f := range files {
		b, err := os.ReadFile(f)
		if err != nil {
			continue
		}
		var s shard
		if json.Unmarshal(b, &s) != nil {
			problems = append(problems, "unreadable shard file "+f)
			continue
		}
		pt := tests[s.Test]
		if pt == nil {
			pt = &perTest{Classes: map[string]int{}, Excluded: map[string]int{}, fps: map[uint64]struct{}{}, Rule: s.Rule, floors: s.Floors}
			tests[s.Test] = pt
		}
		pt.Shards++
		pt.Evaluations += s.Executed
		pt.Requested += s.Requested
		pt.Skipped += s.Skipped
		pt.Steps += s.Steps
		for k, v := range s.Classes {
			pt.Classes[k] += v
		}
		for k, v := range s.Excluded {
			pt.Excluded[k] += v
		}
		if fb, err := os.ReadFile(s.FPFile); err == nil {
			for i := 0; i+8 <= len(fb); i += 8 {
				pt.fps[binary.LittleEndian.Uint64(fb[i:])] = struct{}{}
			}
		}
		if s.Executed < s.Requested && !s.Failed {
			problems = append(problems, fmt.Sprintf("%s shard %d executed %d of %d requested cases", s.Test, s.Shard, s.Executed, s.Requested))
		}
		if s.Shard == 0 || len(samples) < 3 {
			for _, sm := range s.Samples {
				if len(samples) < 8 {
					samples = append(samples, sm)
				}
			}
		}
	}
	names := make([]string, 0, len(tests))
	for n := range tests {
		names = append(names, n)
	}
	sort.Strings(names)
	evals, dnt := 0, 0
	rules := []string{}
	for _, n := range names {
		pt := tests[n]
		pt.DistinctNonTrivial = len(pt.fps)
		evals += pt.Evaluations
		dnt += pt.DistinctNonTrivial
		rules = append(rules, n+": "+pt.Rule)
		for c, fl := range pt.floors {
			if pt.Evaluations > 0 && float64(pt.Classes[c])/float64(pt.Evaluations) < fl {
				problems = append(problems, fmt.Sprintf("%s: class %q is %d of %d cases, below its floor %.2f", n, c, pt.Classes[c], pt.Evaluations, fl))
			}
		}
		if pt.Steps+pt.Skipped > 0 && float64(pt.Skipped)/float64(pt.Steps+pt.Skipped) > 0.30 {
			problems = append(problems, fmt.Sprintf("%s: %d of %d generated commands were skipped (>30%%)", n, pt.Skipped, pt.Steps+pt.Skipped))
		}
	}
	cov := map[string]any{
		"evaluations":         evals,
		"distinct_nontrivial": dnt,
		"rule":                strings.Join(rules, " || "),
		"samples":             samples,
		"per_test":            tests,
		"exhaustive":          false,
	}
	doc := map[string]any{
		"property_id": *prop,
		"tier":        *tier,
		"seed":        *seed,
		"level":       *level,
		"coverage":    cov,
		"wall_s":      *wall,
		"violations":  *violations,
	}
	if *extra != "" {
		if b, err := os.ReadFile(*extra); err == nil {
			var ex map[string]any
			if json.Unmarshal(b, &ex) == nil {
				for k, v := range ex {
					if k == "assumptions" {
						doc[k] = v
					} else {
						cov[k] = v
					}
				}
			}
		}
	}
	b, _ := json.MarshalIndent(doc, "", " ")
	os.MkdirAll(filepath.Dir(*out), 0o755)
	if err := os.WriteFile(*out, append(b, '\n'), 0o644); err != nil {
		fmt.Fprintln(os.Stderr, "evmerge:", err)
		os.Exit(2)
	}
	for _, p := range problems {
		fmt.Println("PROBLEM", p)
	}
	fmt.Printf("MERGED evaluations=%d distinct_nontrivial=%d tests=%d\n", evals, dnt, len(names))
}
