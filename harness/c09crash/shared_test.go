// Generator of snapshotter call histories (same shape as C08's).
package c09crash

import (
	"sort"

	"pgregory.net/rapid"
)

const (
	targetLabel = "containerd.io/snapshot.ref"
	remoteLabel = "containerd.io/snapshot/remote"
)

type Step struct {
	Op          string `json:"op"` // prepare view commit mounts remove cleanup update reopen
	Key         int    `json:"key"`
	Parent      int    `json:"parent"` // index into names; -1 = none
	Target      int    `json:"target"` // -1 = no target label
	MountFail   bool   `json:"mount_fail,omitempty"`
	CheckFail   int    `json:"check_fail,omitempty"` // bitmask over names: Check of their mountpoint fails during this step
	UnmountFail bool   `json:"unmount_fail,omitempty"`
}

type Prefix struct {
	Async bool   `json:"async_remove"`
	Steps []Step `json:"steps"`
}

// callers (containerd's unpacker, CRI) use transient keys ("extract-<n> <chainID>") for active snapshots and chain ids for
// committed ones; the two never coincide.  Names 0-3 are used as keys, 4-7 as committed names / targets; parents may be any.
var names = []string{"k0", "k1", "k2", "k3", "c0", "c1", "c2", "c3"}

// gen keeps an approximate symbolic state (which names are probably committed / active) so that most calls are
// plausible: parents that exist, commits of active keys, removals of existing snapshots.  It is only a generator bias;
// the oracle never relies on it.
func genPrefix(t *rapid.T) Prefix {
	c := Prefix{Async: rapid.Bool().Draw(t, "async")}
	committed := map[int]bool{}
	active := map[int]bool{}
	pick := func(m map[int]bool, lo, hi int, label string) int {
		var ks []int
		for k := range m {
			ks = append(ks, k)
		}
		if len(ks) == 0 || rapid.IntRange(0, 7).Draw(t, label+"any") == 0 {
			return rapid.IntRange(lo, hi).Draw(t, label)
		}
		sort.Ints(ks)
		return rapid.SampledFrom(ks).Draw(t, label+"known")
	}
	n := rapid.IntRange(3, 30).Draw(t, "nsteps")
	for i := 0; i < n; i++ {
		s := Step{Op: rapid.SampledFrom([]string{"prepare", "prepare", "prepare", "prepare", "view", "commit", "mounts", "mounts", "remove", "remove", "cleanup", "update", "cleanup"}).Draw(t, "op"), Parent: -1, Target: -1}
		s.MountFail = rapid.IntRange(0, 5).Draw(t, "mountfail") == 0
		if rapid.IntRange(0, 3).Draw(t, "checkfail") == 0 {
			s.CheckFail = rapid.IntRange(1, 255).Draw(t, "checkmask")
		}
		s.UnmountFail = rapid.IntRange(0, 5).Draw(t, "unmountfail") == 0
		switch s.Op {
		case "prepare", "view":
			s.Key = rapid.IntRange(0, 3).Draw(t, "key")
			if rapid.IntRange(0, 3).Draw(t, "hasparent") > 0 {
				s.Parent = pick(committed, 4, 7, "parent")
			}
			if s.Op == "prepare" && rapid.IntRange(0, 3).Draw(t, "hastarget") > 0 {
				s.Target = rapid.IntRange(4, 7).Draw(t, "target")
				if !s.MountFail && !active[s.Key] && (s.Parent < 0 || committed[s.Parent]) {
					committed[s.Target] = true
				} else if !active[s.Key] {
					active[s.Key] = true
				}
			} else {
				active[s.Key] = true
			}
		case "commit":
			s.Key = pick(active, 0, 3, "ckey")
			s.Target = rapid.IntRange(4, 7).Draw(t, "name")
			if active[s.Key] && !committed[s.Target] {
				delete(active, s.Key)
				committed[s.Target] = true
			}
		case "mounts", "update":
			if rapid.Bool().Draw(t, "onactive") {
				s.Key = pick(active, 0, 3, "mkey")
			} else {
				s.Key = pick(committed, 4, 7, "mname")
			}
		case "remove":
			if rapid.IntRange(0, 2).Draw(t, "rmactive") == 0 {
				s.Key = pick(active, 0, 3, "rkey")
				delete(active, s.Key)
			} else {
				s.Key = pick(committed, 4, 7, "rname")
				delete(committed, s.Key)
			}
		}
		c.Steps = append(c.Steps, s)
	}
	return c
}
