// C09 — after a crash at any point the snapshotter restarts consistent and re-mounted.
package c09crash

import (
	"context"
	"fmt"
	"io"
	"os"
	"path/filepath"
	"reflect"
	"sort"
	"strings"
	"syscall"
	"testing"
	"time"

	"github.com/containerd/containerd/v2/core/snapshots"
	"github.com/containerd/errdefs"
	"github.com/containerd/stargz-snapshotter/snapshot"
	"pgregory.net/rapid"
	"verifharness/lib/pbt"
	"verifharness/lib/recfs"
)

type Case struct {
	Prefix Prefix `json:"prefix"`
	Last   Step   `json:"last"` // the operation during which the process dies (op may also be "reopen": dying inside restore)
	// restart configuration
	AllowInvalid bool `json:"allow_invalid_mounts_on_restart"`
	NoRestore    bool `json:"no_restore"`
	RestoreFail  int  `json:"restore_fail,omitempty"` // bitmask over names: the restore mount of that remote snapshot fails
	Leftover     bool `json:"leftover_mounts"`        // dead mounts of the old process are still in the mount table
	// HalfRemoved (bitmask over the dead process's mountpoints, in sorted order): the process was killed while Close
	// was removing the directories of its remote snapshots (children first): the "fs" child is already gone
	HalfRemoved int `json:"half_removed,omitempty"`
}

func gen(t *rapid.T) Case {
	c := Case{Prefix: genPrefix(t)}
	// the last operation comes from the same generator (take its final step), or is a restart
	if n := len(c.Prefix.Steps); n > 1 && rapid.IntRange(0, 5).Draw(t, "lastkind") > 0 {
		c.Last = c.Prefix.Steps[n-1]
		c.Prefix.Steps = c.Prefix.Steps[:n-1]
	} else {
		c.Last = Step{Op: "reopen", Parent: -1, Target: -1}
	}
	c.AllowInvalid = rapid.Bool().Draw(t, "allowinvalid")
	c.NoRestore = rapid.IntRange(0, 5).Draw(t, "norestore") == 0
	if rapid.IntRange(0, 2).Draw(t, "restorefail") == 0 {
		c.RestoreFail = rapid.IntRange(1, 255).Draw(t, "restoremask")
	}
	c.Leftover = rapid.Bool().Draw(t, "leftover")
	if rapid.IntRange(0, 4).Draw(t, "halfremoved") == 0 {
		c.HalfRemoved = rapid.IntRange(1, 15).Draw(t, "halfmask")
	}
	return c
}

type image struct {
	point string
	dir   string   // copy of the root
	live  []string // mountpoints (relative to the root) with a live backend mount at that moment
}

func copyTree(src, dst string) error {
	return filepath.Walk(src, func(p string, info os.FileInfo, err error) error {
		if err != nil {
			return nil // entries vanish while the operation proceeds
		}
		rel, _ := filepath.Rel(src, p)
		target := filepath.Join(dst, rel)
		if info.IsDir() {
			return os.MkdirAll(target, info.Mode().Perm()|0o700)
		}
		if !info.Mode().IsRegular() {
			return nil
		}
		in, err := os.Open(p)
		if err != nil {
			return nil
		}
		defer in.Close()
		out, err := os.OpenFile(target, os.O_CREATE|os.O_WRONLY|os.O_TRUNC, 0o600)
		if err != nil {
			return err
		}
		defer out.Close()
		_, err = io.Copy(out, in)
		return err
	})
}

func walk(sn snapshots.Snapshotter) (map[string]snapshots.Info, error) {
	out := map[string]snapshots.Info{}
	err := sn.Walk(context.Background(), func(ctx context.Context, info snapshots.Info) error {
		out[info.Name] = info
		return nil
	})
	if errdefs.IsNotFound(err) {
		err = nil
	}
	return out, err
}

func apply(sn snapshots.Snapshotter, s Step) {
	ctx := context.Background()
	key := names[s.Key]
	parent := ""
	if s.Parent >= 0 {
		parent = names[s.Parent]
	}
	switch s.Op {
	case "prepare":
		var opts []snapshots.Opt
		if s.Target >= 0 {
			opts = append(opts, snapshots.WithLabels(map[string]string{targetLabel: names[s.Target], "containerd.io/snapshot/verif-extra": "x" + names[s.Target]}))
		}
		sn.Prepare(ctx, key, parent, opts...)
	case "view":
		sn.View(ctx, key, parent)
	case "commit":
		sn.Commit(ctx, names[s.Target], key)
	case "mounts":
		sn.Mounts(ctx, key)
	case "remove":
		sn.Remove(ctx, key)
	case "cleanup":
		if cl, ok := sn.(snapshots.Cleaner); ok {
			cl.Cleanup(ctx)
		}
	case "update":
		if info, err := sn.Stat(ctx, key); err == nil {
			if info.Labels == nil {
				info.Labels = map[string]string{}
			}
			info.Labels["containerd.io/snapshot/verif"] = "u"
			sn.Update(ctx, info, "labels.containerd.io/snapshot/verif")
		}
	}
}

func decideFor(script *Step, nameOf func(mp string) string) func(op, mp string, seq int) bool {
	return func(op, mp string, seq int) bool {
		switch op {
		case "mount":
			return script.MountFail
		case "unmount":
			return script.UnmountFail
		}
		return false
	}
}

func run(c Case, ev *pbt.Ev) error {
	base, err := os.MkdirTemp("", "c09")
	if err != nil {
		return pbt.Inconclusive("%v", err)
	}
	defer os.RemoveAll(base)
	bindSrc := filepath.Join(base, "layer-content")
	os.MkdirAll(bindSrc, 0o755)
	root := filepath.Join(base, "root")
	fs := recfs.New("old-process")
	fs.BindSrc = bindSrc
	defer fs.UnmountAll()
	var script Step
	fs.Decide = decideFor(&script, nil)
	var opts []snapshot.Opt
	if c.Prefix.Async {
		opts = append(opts, snapshot.AsynchronousRemove)
	}
	sn, err := snapshot.NewSnapshotter(context.Background(), root, fs, opts...)
	if err != nil {
		return pbt.Violf("open-failed", "NewSnapshotter on an empty root: %v", err)
	}
	for _, s := range c.Prefix.Steps {
		script = s
		apply(sn, s)
	}
	ack, err := walk(sn)
	if err != nil {
		sn.Close()
		return pbt.Inconclusive("walk: %v", err)
	}
	// ---- the last operation, with an image taken at every crash point
	var images []image
	nimg := 0
	take := func(point string) {
		dir := filepath.Join(base, fmt.Sprintf("img-%d", nimg))
		nimg++
		if err := copyTree(root, dir); err != nil {
			return
		}
		var live []string
		for mp := range fs.Live() {
			rel, _ := filepath.Rel(root, mp)
			live = append(live, rel)
		}
		sort.Strings(live)
		images = append(images, image{point: point, dir: dir, live: live})
	}
	take("begin")
	snapshot.VerifCrashHook = take
	script = c.Last
	completed := false
	if c.Last.Op == "reopen" {
		// the old process exits cleanly; the NEW process dies inside its restore
		snapshot.VerifCrashHook = nil
		sn.Close()
		fs.UnmountAll()
		fs.Forget()
		take("begin-restore")
		snapshot.VerifCrashHook = take
		fs2 := recfs.New("process-dying-in-restore")
		fs2.BindSrc = bindSrc
		sn2, err := snapshot.NewSnapshotter(context.Background(), root, fs2, opts...)
		snapshot.VerifCrashHook = nil
		if err == nil {
			// images taken inside restore carry fs2's mounts as leftovers
			take("end")
			sn2.Close()
		}
		fs2.UnmountAll()
		completed = err == nil
	} else {
		apply(sn, c.Last)
		snapshot.VerifCrashHook = nil
		completed = true
		take("end")
	}
	var ackEnd map[string]snapshots.Info
	if c.Last.Op != "reopen" {
		ackEnd, _ = walk(sn)
		sn.Close()
	}
	fs.UnmountAll()
	_ = completed
	// names the in-flight operation works on: their presence after the crash is not prescribed
	inflight := map[string]bool{}
	if c.Last.Op != "reopen" && c.Last.Op != "cleanup" {
		inflight[names[c.Last.Key]] = true
		if c.Last.Target >= 0 {
			inflight[names[c.Last.Target]] = true
		}
	}
	inside := 0
	for ii, img := range images {
		err := checkImage(c, img, ack, ackEnd, inflight, bindSrc, ev)
		if err != nil {
			return fmt.Errorf("crash at point %d/%d %q during %s: %w", ii, len(images), img.point, c.Last.Op, err)
		}
		if img.point != "begin" && img.point != "end" && img.point != "begin-restore" {
			inside++
			ev.Class("point-" + img.point)
		}
	}
	remote := false
	for _, info := range ack {
		if _, ok := info.Labels[remoteLabel]; ok {
			remote = true
		}
	}
	ev.Class("last-" + c.Last.Op)
	ev.ClassIf(remote, "remote-snapshot-in-prefix")
	ev.ClassIf(c.AllowInvalid, "allow-invalid")
	ev.ClassIf(c.NoRestore, "no-restore")
	ev.ClassIf(c.RestoreFail != 0, "restore-mount-failures")
	ev.Steps += len(images)
	ev.NTIf(inside > 0 && remote)
	return nil
}

func checkImage(c Case, img image, ack, ackEnd map[string]snapshots.Info, inflight map[string]bool, bindSrc string, ev *pbt.Ev) error {
	defer func() {
		// detach anything still mounted below the image
		if f, err := os.Open("/proc/self/mounts"); err == nil {
			b, _ := io.ReadAll(f)
			f.Close()
			for _, l := range strings.Split(string(b), "\n") {
				fl := strings.Fields(l)
				if len(fl) > 1 && strings.HasPrefix(fl[1], img.dir+"/") {
					syscall.Unmount(fl[1], syscall.MNT_DETACH)
				}
			}
		}
		os.RemoveAll(img.dir)
	}()
	// (with no-restore the mounts belong to a FUSE manager that keeps serving them; that hand-over is C17's business,
	// so dead leftover mounts are only simulated for the restoring configuration)
	if c.Leftover && !c.NoRestore {
		for _, rel := range img.live {
			mp := filepath.Join(img.dir, rel)
			if _, err := os.Stat(mp); err == nil {
				syscall.Mount(bindSrc, mp, "", syscall.MS_BIND, "")
			}
		}
	}
	if c.HalfRemoved != 0 {
		rels := append([]string(nil), img.live...)
		sort.Strings(rels)
		for k, rel := range rels {
			if c.HalfRemoved&(1<<uint(k%8)) != 0 {
				mp := filepath.Join(img.dir, rel)
				syscall.Unmount(mp, syscall.MNT_DETACH)
				if os.Remove(mp) == nil {
					ev.Class("mountpoint-directory-already-removed")
				}
			}
		}
	}
	fs := recfs.New("new-process")
	fs.BindSrc = bindSrc
	defer fs.UnmountAll()
	failedRestore := false
	fs.Decide = func(op, mp string, seq int) bool { return false }
	// restore mount failures are keyed by the target name stored in the snapshot's labels
	var fsMountLabels []map[string]string
	inner := fs
	decide := func(op, mp string, seq int) bool { return false }
	_ = decide
	var opts []snapshot.Opt
	if c.Prefix.Async {
		opts = append(opts, snapshot.AsynchronousRemove)
	}
	if c.AllowInvalid {
		opts = append(opts, snapshot.AllowInvalidMountsOnRestart)
	}
	if c.NoRestore {
		opts = append(opts, snapshot.NoRestore)
	}
	wrap := &labelFS{FS: inner, fail: func(labels map[string]string) bool {
		fsMountLabels = append(fsMountLabels, labels)
		for i, n := range names {
			if labels[targetLabel] == n && c.RestoreFail&(1<<uint(i)) != 0 {
				failedRestore = true
				return true
			}
		}
		return false
	}}
	sn, err := snapshot.NewSnapshotter(context.Background(), img.dir, wrap, opts...)
	if err != nil {
		if failedRestore && !c.AllowInvalid && !c.NoRestore {
			ev.Class("restart-refused-invalid-mount")
			return nil // exactly as allow_invalid_mounts_on_restart=false prescribes
		}
		return pbt.Violf("restart-failed", "restart failed (a restore mount was scripted to fail: %v, allow invalid: %v, no restore: %v): %v", failedRestore, c.AllowInvalid, c.NoRestore, err)
	}
	defer sn.Close()
	if failedRestore && !c.AllowInvalid && !c.NoRestore {
		return pbt.Violf("invalid-mount-tolerated", "a recorded remote snapshot could not be mounted on restart and allow_invalid_mounts_on_restart is off, yet the snapshotter started")
	}
	after, err := walk(sn)
	if err != nil {
		return pbt.Violf("walk-failed", "after restart: %v", err)
	}
	// acknowledged snapshots are still there, unchanged
	want := ack
	if img.point == "end" && ackEnd != nil {
		want, inflight = ackEnd, map[string]bool{}
	}
	for n, w := range want {
		if inflight[n] {
			continue
		}
		g, ok := after[n]
		if !ok {
			return pbt.Violf("acknowledged-snapshot-lost", "snapshot %q (%v, parent %q) had been acknowledged before the crash and is gone after the restart", n, w.Kind, w.Parent)
		}
		if g.Kind != w.Kind || g.Parent != w.Parent || !reflect.DeepEqual(g.Labels, w.Labels) {
			return pbt.Violf("acknowledged-snapshot-changed", "snapshot %q: before the crash %v parent %q labels %v, after the restart %v parent %q labels %v", n, w.Kind, w.Parent, w.Labels, g.Kind, g.Parent, g.Labels)
		}
	}
	// exactly the committed remote snapshots are mounted again, with their labels, at their own directory
	var wantRemote []string
	for n, info := range after {
		if _, ok := info.Labels[remoteLabel]; ok {
			failed := false
			for i, nm := range names {
				if info.Labels[targetLabel] == nm && c.RestoreFail&(1<<uint(i)) != 0 {
					failed = true
				}
			}
			if !failed && !c.NoRestore {
				wantRemote = append(wantRemote, n)
			}
		}
	}
	live := fs.Live()
	if len(live) != len(wantRemote) {
		return pbt.Violf("restored-mount-count", "after the restart %d backend mounts are live %v, %d remote snapshots should be mounted %v (no-restore %v)", len(live), keys(live), len(wantRemote), wantRemote, c.NoRestore)
	}
	for _, n := range wantRemote {
		found := false
		for mp, labels := range live {
			if reflect.DeepEqual(labels, after[n].Labels) {
				found = true
				if !strings.HasPrefix(mp, filepath.Join(img.dir, "snapshots")+"/") || filepath.Base(mp) != "fs" {
					return pbt.Violf("restored-mount-place", "remote snapshot %q restored at %s", n, mp)
				}
				if _, err := os.Stat(mp); err != nil {
					return pbt.Violf("restored-mount-place", "remote snapshot %q restored at %s which does not exist", n, mp)
				}
			}
		}
		if !found {
			return pbt.Violf("restored-mount-labels", "remote snapshot %q (labels %v) was not mounted again with its labels; live mounts carry %v", n, after[n].Labels, live)
		}
	}
	// one cleanup pass removes every half-made directory
	if cl, ok := sn.(snapshots.Cleaner); ok {
		if err := cl.Cleanup(context.Background()); err != nil && !errdefs.IsNotFound(err) {
			return pbt.Violf("cleanup-failed", "Cleanup after restart: %v", err)
		}
	}
	ents, _ := os.ReadDir(filepath.Join(img.dir, "snapshots"))
	var dirs []string
	for _, e := range ents {
		dirs = append(dirs, e.Name())
	}
	// (directories of remote snapshots are removed by a clean Close and only re-created by the restore, so there can
	// be fewer directories than snapshots with no-restore; more directories than snapshots means an orphan survived)
	if len(dirs) > len(after) || (len(dirs) != len(after) && !c.NoRestore) {
		return pbt.Violf("cleanup-dirs", "after restart + one Cleanup there are %d snapshot directories %v for %d snapshots", len(dirs), dirs, len(after))
	}
	for _, d := range dirs {
		if strings.HasPrefix(d, "new-") {
			return pbt.Violf("cleanup-leftover", "temporary directory %s survives restart + Cleanup", d)
		}
	}
	// every snapshot is usable or removable: remove all of them, children first
	remaining := map[string]snapshots.Info{}
	for n, i := range after {
		remaining[n] = i
	}
	for len(remaining) > 0 {
		progress := false
		for n := range remaining {
			hasChild := false
			for _, o := range remaining {
				if o.Parent == n {
					hasChild = true
				}
			}
			if hasChild {
				continue
			}
			if err := sn.Remove(context.Background(), n); err != nil {
				return pbt.Violf("not-removable", "after the restart snapshot %q (%v) cannot be removed: %v", n, remaining[n].Kind, err)
			}
			delete(remaining, n)
			progress = true
		}
		if !progress {
			return pbt.Violf("not-removable", "after the restart the snapshots %v form a cycle", remaining)
		}
	}
	if cl, ok := sn.(snapshots.Cleaner); ok {
		cl.Cleanup(context.Background())
	}
	if left, _ := os.ReadDir(filepath.Join(img.dir, "snapshots")); len(left) != 0 {
		return pbt.Violf("cleanup-dirs", "after removing every snapshot and Cleanup %d directories remain", len(left))
	}
	if l := fs.Live(); len(l) != 0 {
		return pbt.Violf("mount-leak", "after removing every snapshot %d backend mounts are still live: %v", len(l), keys(l))
	}
	return nil
}

func keys(m map[string]map[string]string) []string {
	var o []string
	for k := range m {
		o = append(o, k)
	}
	sort.Strings(o)
	return o
}

// labelFS lets the restart script fail mounts by the labels they carry.
type labelFS struct {
	*recfs.FS
	fail func(labels map[string]string) bool
}

func (l *labelFS) Mount(ctx context.Context, mountpoint string, labels map[string]string) error {
	if l.fail(labels) {
		return fmt.Errorf("scripted restore failure for %s", labels[targetLabel])
	}
	return l.FS.Mount(ctx, mountpoint, labels)
}

func TestProp_Crash(t *testing.T) {
	pbt.Run(t, pbt.Options{Prop: "C09", Name: "Crash", Quick: 2500, Thorough: 30000, Current: true, Timeout: 240 * time.Second,
		Rule: "rapid: a generated history of snapshotter calls with backend failures (as C08) is the prefix; during one more operation (Prepare with/without target, View, Commit, Remove, Cleanup, Update, or the restore of a restarting snapshotter) an image of the root directory is taken at EVERY named crash point of that operation (plus before and after it); " +
			"each image is restarted with a generated configuration (allow_invalid_mounts_on_restart, no-restore, which restore mounts fail, dead mounts of the old process still in the mount table); oracle per image: restart succeeds, or fails exactly when a restore mount fails and invalid mounts are not allowed; every snapshot acknowledged before the operation (other than the ones it names) is present with the same kind, parent and labels; " +
			"exactly the remote-labelled snapshots are mounted again, at their fs directory, with their stored labels, nothing else; one Cleanup leaves one directory per snapshot and no new-*; every snapshot can be removed (children first) and then no directory and no mount remains. non-trivial = a crash point strictly inside the operation with a remote snapshot in the prefix",
	}, gen, run)
}

var _ = rapid.Bool
