// C20 — snapshot labels written at pull time reproduce the layer's source at mount time.
package c20labels

import (
	"context"
	"fmt"
	"sort"
	"strconv"
	"strings"
	"testing"

	"github.com/containerd/containerd/v2/core/images"
	ctdsnapshotters "github.com/containerd/containerd/v2/pkg/snapshotters"
	"github.com/containerd/containerd/v2/pkg/labels"
	"github.com/containerd/stargz-snapshotter/fs/config"
	"github.com/containerd/stargz-snapshotter/fs/source"
	"github.com/containerd/stargz-snapshotter/service"
	digest "github.com/opencontainers/go-digest"
	ocispec "github.com/opencontainers/image-spec/specs-go/v1"
	"pgregory.net/rapid"
	"verifharness/lib/pbt"
)

type Layer struct {
	D         int      `json:"d"` // index into the digest pool (repeats allowed)
	URLs      []string `json:"urls,omitempty"`
	MediaType string   `json:"media_type"`
}

type Mutation struct {
	Drop    []string          `json:"drop,omitempty"`
	Corrupt map[string]string `json:"corrupt,omitempty"`
}

type Case struct {
	Ref      string   `json:"ref"`
	Prefetch int64    `json:"prefetch"`
	Flavor   string   `json:"flavor"` // default | cri
	Manifest string   `json:"manifest_media_type"`
	Layers   []Layer  `json:"layers"`
	Mut      Mutation `json:"mutation"`
	Target   int      `json:"target"` // which layer's labels are mutated / read (mod len)
}

var layerTypes = []string{
	ocispec.MediaTypeImageLayer, ocispec.MediaTypeImageLayerGzip, ocispec.MediaTypeImageLayerZstd,
	images.MediaTypeDockerSchema2Layer, images.MediaTypeDockerSchema2LayerGzip, images.MediaTypeDockerSchema2LayerForeignGzip,
	ocispec.MediaTypeImageLayerNonDistributable, ocispec.MediaTypeImageLayerGzip + "+encrypted",
}

func dg(i int) digest.Digest { return digest.FromString(fmt.Sprintf("layer-%d", i)) }

func genURL(t *rapid.T) string {
	switch rapid.IntRange(0, 9).Draw(t, "urlkind") {
	case 0:
		return ""
	case 1:
		return "https://h.example/" + strings.Repeat("p", rapid.IntRange(100, 200).Draw(t, "plen"))
	default:
		x := rapid.IntRange(0, 99999).Draw(t, "url")
		return fmt.Sprintf("http%s://r%d.example:%d/v2/blobs/%d?a=b&c=%%2F", []string{"", "s"}[x%2], x%7, 80+x%400, x)
	}
}

func gen(t *rapid.T) Case {
	c := Case{
		Ref:      rapid.SampledFrom([]string{"docker.io/library/ubuntu:latest", "ghcr.io/a/b:v1", "localhost:5000/x/y@sha256:" + strings.Repeat("a", 64), "registry.example.com/repo/img:tag"}).Draw(t, "ref"),
		Prefetch: rapid.SampledFrom([]int64{0, 1, 10485760, 1 << 40, -1}).Draw(t, "prefetch"),
		Flavor:   rapid.SampledFrom([]string{"default", "cri"}).Draw(t, "flavor"),
		Manifest: rapid.SampledFrom([]string{ocispec.MediaTypeImageManifest, images.MediaTypeDockerSchema2Manifest}).Draw(t, "mt"),
	}
	// three shapes keep layers x urls bounded (the handler is quadratic in the number of layers)
	shape := rapid.SampledFrom([]string{"small", "small", "mid", "long"}).Draw(t, "shape")
	var n int
	var urlCounts []int
	switch shape {
	case "small":
		n = rapid.IntRange(0, 5).Draw(t, "nlayers")
		urlCounts = []int{0, 0, 1, 2, 5, 30, 200}
	case "mid":
		n = rapid.IntRange(4, 12).Draw(t, "nlayers")
		urlCounts = []int{0, 0, 1, 2, 5, 30}
	default:
		n = rapid.SampledFrom([]int{20, 40, 57, 58, 60}).Draw(t, "nlayers")
		urlCounts = []int{0, 0, 0, 1, 2}
	}
	pool := rapid.SampledFrom([]int{3, 10, 1000}).Draw(t, "pool")
	for i := 0; i < n; i++ {
		l := Layer{D: rapid.IntRange(0, pool-1).Draw(t, "d"), MediaType: rapid.SampledFrom(layerTypes).Draw(t, "lmt")}
		nu := rapid.SampledFrom(urlCounts).Draw(t, "nurls")
		for j := 0; j < nu; j++ {
			l.URLs = append(l.URLs, genURL(t))
		}
		c.Layers = append(c.Layers, l)
	}
	c.Target = rapid.IntRange(0, 59).Draw(t, "target")
	if rapid.IntRange(0, 2).Draw(t, "mutate") == 0 {
		keys := []string{
			"containerd.io/snapshot/remote/stargz.reference", "containerd.io/snapshot/remote/stargz.digest", "containerd.io/snapshot/remote/stargz.layers",
			"containerd.io/snapshot/cri.image-ref", "containerd.io/snapshot/cri.layer-digest", "containerd.io/snapshot/cri.image-layers",
			"containerd.io/snapshot/remote/urls", "containerd.io/snapshot/remote/urls.0", "containerd.io/snapshot/remote/urls.1", config.TargetPrefetchSizeLabel,
		}
		c.Mut.Drop = rapid.SliceOfNDistinct(rapid.SampledFrom(keys), 0, 3, func(s string) string { return s }).Draw(t, "drop")
		nc := rapid.IntRange(0, 2).Draw(t, "ncorrupt")
		for i := 0; i < nc; i++ {
			if c.Mut.Corrupt == nil {
				c.Mut.Corrupt = map[string]string{}
			}
			k := rapid.SampledFrom(keys[:6]).Draw(t, "ck")
			c.Mut.Corrupt[k] = rapid.SampledFrom([]string{"", "not a digest", "sha256:zz", "sha256:" + strings.Repeat("b", 63), "UPPER/Case:ref", "sha256:" + strings.Repeat("c", 64) + ",garbage", ","}).Draw(t, "cv")
		}
	}
	return c
}

func nonEmpty(in []string) []string {
	out := []string{}
	for _, s := range in {
		if s != "" {
			out = append(out, s)
		}
	}
	return out
}

func isPrefix(p, full []string) bool {
	if len(p) > len(full) {
		return false
	}
	for i := range p {
		if p[i] != full[i] {
			return false
		}
	}
	return true
}

func run(c Case, ev *pbt.Ev) error {
	children := []ocispec.Descriptor{{MediaType: ocispec.MediaTypeImageConfig, Digest: digest.FromString("config"), Size: 10}}
	for _, l := range c.Layers {
		children = append(children, ocispec.Descriptor{MediaType: l.MediaType, Digest: dg(l.D), Size: 100, URLs: append([]string(nil), l.URLs...)})
	}
	base := images.HandlerFunc(func(ctx context.Context, desc ocispec.Descriptor) ([]ocispec.Descriptor, error) {
		out := make([]ocispec.Descriptor, len(children))
		copy(out, children)
		return out, nil
	})
	var h images.Handler
	if c.Flavor == "default" {
		h = source.AppendDefaultLabelsHandlerWrapper(c.Ref, c.Prefetch)(base)
	} else {
		h = source.AppendExtraLabelsHandler(c.Prefetch, ctdsnapshotters.AppendInfoHandlerWrapper(c.Ref))(base)
	}
	out, err := h.Handle(context.Background(), ocispec.Descriptor{MediaType: c.Manifest, Digest: digest.FromString("manifest")})
	if err != nil {
		return pbt.Violf("handler-error", "label handler failed on a well-formed manifest: %v", err)
	}
	if len(out) != len(children) {
		return pbt.Violf("children-changed", "handler returned %d children for %d", len(out), len(children))
	}
	hosts := source.RegistryHosts(nil)
	reader := source.FromDefaultLabels(hosts)
	if c.Flavor == "cri" {
		reader = service.VerifSources(hosts)
	}
	byDigest := map[digest.Digest][]Layer{}
	for _, l := range c.Layers {
		byDigest[dg(l.D)] = append(byDigest[dg(l.D)], l)
	}
	truncated, repeated := false, false
	for li, l := range c.Layers {
		d := out[li+1]
		if d.Digest != dg(l.D) {
			return pbt.Violf("children-changed", "child %d digest changed", li+1)
		}
		keys := make([]string, 0, len(d.Annotations))
		for k := range d.Annotations {
			keys = append(keys, k)
		}
		sort.Strings(keys)
		for _, k := range keys {
			if err := labels.Validate(k, d.Annotations[k]); err != nil {
				return pbt.Violf("label-invalid", "layer %d: label %q (%d bytes value) is rejected by containerd's validation: %v", li, k, len(d.Annotations[k]), err)
			}
		}
		srcs, err := reader(d.Annotations)
		if err != nil {
			return pbt.Violf("roundtrip-error", "layer %d: labels written by the handler are rejected by the reader: %v", li, err)
		}
		if len(srcs) != 1 {
			return pbt.Violf("roundtrip", "layer %d: %d sources", li, len(srcs))
		}
		s := srcs[0]
		if s.Name.String() != c.Ref {
			return pbt.Violf("roundtrip-ref", "layer %d: reference %q, written %q", li, s.Name.String(), c.Ref)
		}
		if s.Target.Digest != dg(l.D) {
			return pbt.Violf("roundtrip-digest", "layer %d: digest %s, written %s", li, s.Target.Digest, dg(l.D))
		}
		wantURLs := nonEmpty(l.URLs)
		gotURLs := nonEmpty(s.Target.URLs)
		// the writer drops nothing but may cut the list at the label size limit; empty strings vanish in both
		if !isPrefixOfWithEmpties(s.Target.URLs, l.URLs) {
			return pbt.Violf("roundtrip-urls", "layer %d: URLs %q are not a prefix of the layer's URLs %q", li, gotURLs, wantURLs)
		}
		if fits("containerd.io/snapshot/remote/urls", l.URLs) && len(gotURLs) != len(wantURLs) {
			return pbt.Violf("roundtrip-urls-short", "layer %d: %d of %d URLs came back although the whole list fits a label", li, len(gotURLs), len(wantURLs))
		}
		if !fits("containerd.io/snapshot/remote/urls", l.URLs) {
			truncated = true
		}
		if len(s.Manifest.Layers) == 0 || s.Manifest.Layers[0].Digest != dg(l.D) {
			return pbt.Violf("roundtrip-manifest", "layer %d: manifest does not start with the target layer", li)
		}
		// neighbours
		var wantN []Layer
		var all []string
		for _, f := range c.Layers[li:] {
			all = append(all, dg(f.D).String())
		}
		for _, f := range c.Layers[li+1:] {
			if dg(f.D) != dg(l.D) {
				wantN = append(wantN, f)
			} else {
				repeated = true
			}
		}
		gotN := s.Manifest.Layers[1:]
		if len(gotN) > len(wantN) {
			return pbt.Violf("neighbours", "layer %d: %d neighbours reconstructed, only %d layers follow it", li, len(gotN), len(wantN))
		}
		for j, g := range gotN {
			if g.Digest != dg(wantN[j].D) {
				return pbt.Violf("neighbours-order", "layer %d: neighbour %d is %s, the manifest's next layer is %s", li, j, g.Digest, dg(wantN[j].D))
			}
			ok := false
			for _, cand := range byDigest[g.Digest] {
				if isPrefixOfWithEmpties(g.URLs, cand.URLs) {
					ok = true
				}
			}
			if !ok {
				return pbt.Violf("neighbour-urls", "layer %d: neighbour %d (%s) carries URLs %q which belong to no layer with that digest", li, j, g.Digest, g.URLs)
			}
		}
		if fits("containerd.io/snapshot/remote/stargz.layers", all) {
			if len(gotN) != len(wantN) {
				return pbt.Violf("neighbours-short", "layer %d: %d of %d following layers reconstructed although the digest list fits a label", li, len(gotN), len(wantN))
			}
		} else {
			truncated = true
		}
		pv, ok := s.Target.Annotations[config.TargetPrefetchSizeLabel]
		if !ok {
			return pbt.Violf("prefetch-label", "layer %d: prefetch size label missing", li)
		}
		if n, err := strconv.ParseInt(pv, 10, 64); err != nil || n != c.Prefetch {
			return pbt.Violf("prefetch-label", "layer %d: prefetch size label %q, written %d", li, pv, c.Prefetch)
		}
	}
	// mutation of one layer's label set
	mutated := false
	if len(c.Layers) > 0 && (len(c.Mut.Drop) > 0 || len(c.Mut.Corrupt) > 0) {
		li := c.Target % len(c.Layers)
		lab := map[string]string{}
		for k, v := range out[li+1].Annotations {
			lab[k] = v
		}
		refKey, dgKey, layersKey := "containerd.io/snapshot/remote/stargz.reference", "containerd.io/snapshot/remote/stargz.digest", "containerd.io/snapshot/remote/stargz.layers"
		if c.Flavor == "cri" {
			refKey, dgKey, layersKey = "containerd.io/snapshot/cri.image-ref", "containerd.io/snapshot/cri.layer-digest", "containerd.io/snapshot/cri.image-layers"
		}
		for _, k := range c.Mut.Drop {
			if _, ok := lab[k]; ok {
				delete(lab, k)
				mutated = true
			}
		}
		ck := make([]string, 0, len(c.Mut.Corrupt))
		for k := range c.Mut.Corrupt {
			ck = append(ck, k)
		}
		sort.Strings(ck)
		for _, k := range ck {
			if _, ok := lab[k]; ok {
				lab[k] = c.Mut.Corrupt[k]
				mutated = true
			}
		}
		srcs, err := reader(lab)
		_, hasRef := lab[refKey]
		_, hasDg := lab[dgKey]
		mustFail := !hasRef || !hasDg
		if hasDg {
			if _, e := digest.Parse(lab[dgKey]); e != nil {
				mustFail = true
			}
		}
		if ls, ok := lab[layersKey]; ok {
			for _, x := range strings.Split(ls, ",") {
				if _, e := digest.Parse(x); e != nil {
					mustFail = true
				}
			}
		}
		if mustFail && err == nil {
			return pbt.Violf("mutation-accepted", "labels with missing/malformed mandatory fields were resolved to a source: ref present=%v digest=%q layers=%q -> %s %s",
				hasRef, lab[dgKey], lab[layersKey], srcs[0].Name.String(), srcs[0].Target.Digest)
		}
		if err == nil {
			s := srcs[0]
			if s.Name.String() != lab[refKey] && s.Name.String() != c.Ref {
				return pbt.Violf("mutation-other-source", "mutated labels resolved to reference %q (label %q)", s.Name.String(), lab[refKey])
			}
			if s.Target.Digest.String() != lab[dgKey] {
				return pbt.Violf("mutation-other-source", "mutated labels resolved to digest %q (label %q)", s.Target.Digest, lab[dgKey])
			}
		}
		ev.ClassIf(mustFail, "mutation-must-fail")
	}
	ev.Class("flavor-" + c.Flavor)
	ev.ClassIf(truncated, "truncated")
	ev.ClassIf(repeated, "repeated-digest")
	ev.ClassIf(mutated, "mutated")
	ev.NTIf(truncated || repeated || mutated)
	return nil
}

// fits reports whether the comma-joined list certainly fits a containerd label under key (one byte slack for the
// writer's trailing comma).
func fits(key string, vals []string) bool {
	return len(key)+len(strings.Join(vals, ","))+1 <= 4096
}

// isPrefixOfWithEmpties: got (as decoded by strings.Split, so a vanished list is [""]) must be a prefix of want.
// Empty strings are carried verbatim by the label protocol except that an empty list and [""] coincide.
func isPrefixOfWithEmpties(got, want []string) bool {
	if len(got) == 1 && got[0] == "" {
		return true // empty label: zero URLs survived
	}
	if isPrefix(got, want) {
		return true
	}
	// trailing empty strings are lost by TrimSuffix(",") on the writer side
	return isPrefix(nonEmpty(got), nonEmpty(want))
}

func TestProp_Labels(t *testing.T) {
	pbt.Run(t, pbt.Options{Prop: "C20", Name: "Labels", Quick: 30000, Thorough: 300000,
		Rule: "rapid: manifest children (config + 0-60 layers over a digest pool of 3/10/1000 so digests repeat; URL lists of 0-200 comma-free URLs of 0-200 bytes; OCI/Docker/foreign/encrypted layer media types) x handler {default labels, extra labels over containerd's CRI labels} x reader {FromDefaultLabels, the composed reader of service.NewFileSystem} x label mutation (drop / corrupt up to 3 keys); " +
			"oracle: labels.Validate on every written label; round trip (ref, digest, URL prefix, neighbours = prefix of following layers minus the target digest in manifest order, each with URLs of a layer of that digest, complete when the list fits 4096 bytes, prefetch size); mutated mandatory labels must be rejected. " +
			"non-trivial = a label was truncated at the size limit, or digests repeat, or the label set was mutated",
	}, gen, run)
}
