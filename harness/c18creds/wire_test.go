// C18 (b) — headers configured for a registry host and credentials never travel to another host.
package c18creds

import (
	"bytes"
	"context"
	"encoding/base64"
	"fmt"
	"io"
	"net/http"
	"net/url"
	"strings"
	"sync"
	"testing"
	"time"

	"github.com/containerd/containerd/v2/core/remotes/docker"
	"github.com/containerd/containerd/v2/pkg/reference"
	"github.com/containerd/stargz-snapshotter/cache"
	"github.com/containerd/stargz-snapshotter/fs/config"
	"github.com/containerd/stargz-snapshotter/fs/remote"
	"github.com/containerd/stargz-snapshotter/fs/source"
	"github.com/containerd/stargz-snapshotter/service/resolver"
	rhttp "github.com/hashicorp/go-retryablehttp"
	digest "github.com/opencontainers/go-digest"
	ocispec "github.com/opencontainers/image-spec/specs-go/v1"
	"pgregory.net/rapid"
	"verifharness/lib/memreg"
	"verifharness/lib/pbt"
	"verifharness/lib/tarmodel"
)

// HostScript is how one registry host behaves.
type HostScript struct {
	Mode      string `json:"mode"`      // direct | redirect | unavailable
	Challenge string `json:"challenge"` // none | basic | bearer
	Expire    int    `json:"expire"`    // the n-th range fetch of the blob through this host (directly or at its redirect target) answers 403 (0 = never)
	Flip      bool   `json:"flip"`      // when that 403 is served the host changes between answering directly and redirecting
}

type WOp struct {
	Op  string `json:"op"` // read | cache | check | refresh
	Off int    `json:"off,omitempty"`
	Len int    `json:"len,omitempty"`
}

type WCase struct {
	Mirror   HostScript `json:"mirror"`
	Origin   HostScript `json:"origin"`
	UseCreds bool       `json:"use_creds"`
	Ops      []WOp      `json:"ops"`
	Conc     int        `json:"concurrent_readers,omitempty"`
}

const (
	originHost = "reg.example.com"
	mirrorHost = "mirror.example.com"
	cdnHost    = "cdn.example.net"
	tokenHost  = "auth.example.com"
)

func genHostScript(t *rapid.T, label string) HostScript {
	return HostScript{
		Mode:      rapid.SampledFrom([]string{"direct", "direct", "redirect", "redirect", "unavailable"}).Draw(t, label+"mode"),
		Challenge: rapid.SampledFrom([]string{"none", "basic", "bearer"}).Draw(t, label+"challenge"),
		Expire:    rapid.SampledFrom([]int{0, 0, 1, 2, 3}).Draw(t, label+"expire"),
		Flip:      rapid.Bool().Draw(t, label+"flip"),
	}
}

func genW(t *rapid.T) WCase {
	c := WCase{Mirror: genHostScript(t, "mirror"), Origin: genHostScript(t, "origin"), UseCreds: rapid.IntRange(0, 3).Draw(t, "creds") > 0}
	c.Ops = rapid.SliceOfN(rapid.Custom(func(t *rapid.T) WOp {
		return WOp{Op: rapid.SampledFrom([]string{"read", "read", "read", "cache", "check", "refresh"}).Draw(t, "op"), Off: rapid.IntRange(0, 300).Draw(t, "off"), Len: rapid.IntRange(1, 200).Draw(t, "len")}
	}), 1, 10).Draw(t, "ops")
	c.Conc = rapid.SampledFrom([]int{0, 0, 2, 4}).Draw(t, "conc")
	return c
}

type wireEnv struct {
	c        WCase
	blob     []byte
	dgst     digest.Digest
	mu       sync.Mutex
	cdnFetch map[string]int // per source host: range fetches served for it (directly or by the redirect target)
	expired  map[string]bool
	flipped  map[string]bool
	sawRedir bool
	saw403   bool
}

func secretOf(host string) (string, string) { return "user-" + host, "pass-" + host }

func headerOf(host string) string { return "hdr-secret-" + host }

func (e *wireEnv) decide(q *memreg.Req) memreg.Action {
	e.mu.Lock()
	defer e.mu.Unlock()
	switch q.Host {
	case tokenHost:
		form, _ := url.ParseQuery(string(q.Body))
		return memreg.Action{Kind: "raw", Raw: func(req *http.Request, _ []byte) (*http.Response, error) {
			svc := req.URL.Query().Get("service")
			if svc == "" {
				svc = form.Get("service") // OAuth2 style POST
			}
			body := fmt.Sprintf(`{"token":"tok-%s","access_token":"tok-%s","expires_in":300}`, svc, svc)
			return &http.Response{StatusCode: 200, Status: "200 OK", Proto: "HTTP/1.1", ProtoMajor: 1, ProtoMinor: 1, Header: http.Header{"Content-Type": {"application/json"}}, Body: io.NopCloser(strings.NewReader(body)), Request: req}, nil
		}}
	case cdnHost:
		src := q.Query // "from=<host>"
		from := strings.TrimPrefix(src, "from=")
		hs := e.c.Origin
		if from == mirrorHost {
			hs = e.c.Mirror
		}
		if q.Header.Get("Accept-Encoding") == "identity" {
			e.cdnFetch[from]++
			if hs.Expire > 0 && e.cdnFetch[from] == hs.Expire {
				e.saw403 = true
				if hs.Flip {
					e.flipped[from] = !e.flipped[from]
				}
				return memreg.Action{Kind: "status", Status: 403}
			}
		}
		return memreg.Action{}
	case originHost, mirrorHost:
		hs := e.c.Origin
		if q.Host == mirrorHost {
			hs = e.c.Mirror
		}
		if hs.Mode == "unavailable" {
			return memreg.Action{Kind: "status", Status: 503}
		}
		auth := q.Header.Get("Authorization")
		switch hs.Challenge {
		case "basic":
			if !strings.HasPrefix(auth, "Basic ") {
				return memreg.Action{Kind: "raw", Raw: challenge(`Basic realm="` + q.Host + `"`)}
			}
		case "bearer":
			if !strings.HasPrefix(auth, "Bearer ") {
				return memreg.Action{Kind: "raw", Raw: challenge(fmt.Sprintf(`Bearer realm="https://%s/token",service="%s"`, tokenHost, q.Host))}
			}
		}
		mode := hs.Mode
		if e.flipped[q.Host] {
			mode = map[string]string{"direct": "redirect", "redirect": "direct"}[mode]
		}
		if mode == "direct" && q.Header.Get("Accept-Encoding") == "identity" {
			e.cdnFetch[q.Host]++
			if hs.Expire > 0 && e.cdnFetch[q.Host] == hs.Expire {
				e.saw403 = true
				if hs.Flip {
					e.flipped[q.Host] = !e.flipped[q.Host]
				}
				return memreg.Action{Kind: "status", Status: 403}
			}
		}
		if mode == "redirect" {
			e.sawRedir = true
			return memreg.Action{Kind: "redirect", Location: fmt.Sprintf("https://%s/blobs/%s?from=%s", cdnHost, e.dgst, q.Host)}
		}
	}
	return memreg.Action{}
}

func challenge(v string) func(req *http.Request, _ []byte) (*http.Response, error) {
	return func(req *http.Request, _ []byte) (*http.Response, error) {
		return &http.Response{StatusCode: 401, Status: "401 Unauthorized", Proto: "HTTP/1.1", ProtoMajor: 1, ProtoMinor: 1,
			Header: http.Header{"Www-Authenticate": {v}}, Body: io.NopCloser(bytes.NewReader(nil)), Request: req}, nil
	}
}

// hostsFor builds the registry hosts exactly as the daemon does (service/resolver.RegistryHostsFromConfig: retryable
// client, docker authorizer fed by the credential functions, per-mirror headers) and only swaps the innermost
// network transport for the in-memory registry.
func hostsFor(reg *memreg.Registry, useCreds bool) source.RegistryHosts {
	cfg := resolver.Config{Host: map[string]resolver.HostConfig{
		originHost: {Mirrors: []resolver.MirrorConfig{{Host: mirrorHost, RequestTimeoutSec: 2, Header: map[string]any{"X-Verif-Mirror-Token": headerOf(mirrorHost), "X-Verif-List": []any{headerOf(mirrorHost) + "-a", headerOf(mirrorHost) + "-b"}}}}},
	}, RequestTimeoutSec: 2}
	var creds []resolver.Credential
	if useCreds {
		creds = append(creds, func(host string, ref reference.Spec) (string, string, error) {
			if host == originHost || host == mirrorHost {
				u, p := secretOf(host)
				return u, p, nil
			}
			return "", "", nil
		})
	}
	inner := resolver.RegistryHostsFromConfig(cfg, creds...)
	return func(ref reference.Spec) ([]docker.RegistryHost, error) {
		hs, err := inner(ref)
		if err != nil {
			return nil, err
		}
		for i := range hs {
			if rt, ok := hs[i].Client.Transport.(*rhttp.RoundTripper); ok {
				rt.Client.HTTPClient.Transport = reg
			}
		}
		return hs, nil
	}
}

func runW(c WCase, ev *pbt.Ev) error {
	e := &wireEnv{c: c, blob: tarmodel.Content(5, 400), cdnFetch: map[string]int{}, expired: map[string]bool{}, flipped: map[string]bool{}}
	e.dgst = digest.FromBytes(e.blob)
	reg := memreg.New()
	reg.AddBlob(e.dgst.String(), e.blob)
	reg.Decide = e.decide
	hosts := hostsFor(reg, c.UseCreds)
	res := remote.NewResolver(config.BlobConfig{ChunkSize: 64, FetchTimeoutSec: 2, CheckAlways: true, MaxRetries: 1, MinWaitMSec: 1, MaxWaitMSec: 2}, nil)
	ref, _ := reference.Parse(originHost + "/repo/img:latest")
	desc := ocispec.Descriptor{Digest: e.dgst, Size: int64(len(e.blob)), MediaType: ocispec.MediaTypeImageLayerGzip}
	ctx, cancel := context.WithTimeout(context.Background(), 30*time.Second)
	defer cancel()
	b, err := res.Resolve(ctx, hosts, ref, desc, cache.NewMemoryCache())
	if err == nil {
		defer b.Close()
		doOp := func(op WOp) {
			switch op.Op {
			case "read":
				p := make([]byte, op.Len)
				if n, err := b.ReadAt(p, int64(op.Off)); err == nil && n > 0 {
					end := op.Off + n
					if end <= len(e.blob) && !bytes.Equal(p[:n], e.blob[op.Off:end]) {
						// byte exactness is C06's business; noted only
						_ = end
					}
				}
			case "cache":
				b.Cache(int64(op.Off), int64(op.Len))
			case "check":
				b.Check()
			case "refresh":
				b.Refresh(ctx, hosts, ref, desc)
			}
		}
		for _, op := range c.Ops {
			if c.Conc > 0 && op.Op == "read" {
				var wg sync.WaitGroup
				for g := 0; g < c.Conc; g++ {
					wg.Add(1)
					go func(g int) {
						defer wg.Done()
						doOp(WOp{Op: "read", Off: (op.Off + 64*g) % 400, Len: op.Len})
					}(g)
				}
				wg.Wait()
			} else {
				doOp(op)
			}
			ev.Steps++
		}
	} else {
		ev.Class("resolve-refused")
	}
	// ---- universal negative over the complete request log
	for _, q := range reg.Log() {
		host := q.Host
		for k, vs := range q.Header {
			for _, v := range vs {
				for _, h := range []string{originHost, mirrorHost} {
					if strings.Contains(v, headerOf(h)) && host != h {
						return pbt.Violf("header-leaked", "request #%d %s https://%s%s carries header %s: %q, which is configured for %s only (action %q)", q.Seq, q.Method, host, q.Path, k, v, h, q.Action)
					}
				}
			}
		}
		if auth := q.Header.Get("Authorization"); auth != "" {
			switch {
			case strings.HasPrefix(auth, "Basic "):
				dec, _ := base64.StdEncoding.DecodeString(strings.TrimPrefix(auth, "Basic "))
				for _, h := range []string{originHost, mirrorHost} {
					_, pw := secretOf(h)
					if strings.Contains(string(dec), pw) && host != h && host != tokenHost {
						return pbt.Violf("credentials-leaked", "request #%d to %s carries the Basic credentials issued for %s", q.Seq, host, h)
					}
					if strings.Contains(string(dec), pw) && host == tokenHost && !strings.Contains(q.Query+"&"+string(q.Body), "service="+h) {
						return pbt.Violf("credentials-leaked", "token request #%d for %q carries the credentials issued for %s", q.Seq, q.Query, h)
					}
				}
			case strings.HasPrefix(auth, "Bearer "):
				tok := strings.TrimPrefix(auth, "Bearer ")
				if strings.HasPrefix(tok, "tok-") && host != strings.TrimPrefix(tok, "tok-") {
					return pbt.Violf("token-leaked", "request #%d to %s carries the bearer token issued for %s", q.Seq, host, strings.TrimPrefix(tok, "tok-"))
				}
			}
			if host == cdnHost {
				return pbt.Violf("authorization-forwarded", "request #%d to the redirect target %s carries an Authorization header", q.Seq, host)
			}
		}
		if host == cdnHost {
			for k := range q.Header {
				if strings.HasPrefix(k, "X-Verif") {
					return pbt.Violf("header-forwarded", "request #%d to the redirect target carries the configured header %s", q.Seq, k)
				}
			}
		}
	}
	e.mu.Lock()
	redir, exp := e.sawRedir, e.saw403
	e.mu.Unlock()
	ev.ClassIf(redir, "redirect")
	ev.ClassIf(exp, "expired-url-403")
	ev.ClassIf(c.UseCreds, "credentials")
	ev.ClassIf(c.Mirror.Challenge != "none" || c.Origin.Challenge != "none", "challenge")
	ev.NTIf(redir && exp)
	return nil
}

func TestProp_Wire(t *testing.T) {
	pbt.Run(t, pbt.Options{Prop: "C18", Name: "Wire", Quick: 5000, Thorough: 150000, Timeout: 120 * time.Second,
		Rule: "rapid: registry hosts built by service/resolver.RegistryHostsFromConfig (mirror with configured headers incl. a list-valued one, origin without; docker authorizer with per-host credentials or none; retryable client) with only the network transport replaced by the in-memory registry; each of mirror/origin behaves {direct, redirects to a third host, unavailable} x {no challenge, 401 Basic, 401 Bearer with a token service on a fourth host} and the redirect target optionally answers 403 on its n-th fetch (URL expired -> refresh); " +
			"1-10 ops of ReadAt/Cache/Check/Refresh, optionally 2-4 concurrent readers; oracle = universal negative over the complete request log: a configured header value only in requests to its host; Basic credentials of host H only to H or to the token service for service=H; bearer token tok-H only to H; no Authorization and no configured header in any request to the redirect target. " +
			"non-trivial = the history contains a redirect and a 403 refresh",
	}, genW, runW)
}
