// C18 (a) — credentials captured from CRI pull requests reach only their own image and host.
package c18creds

import (
	"context"
	"encoding/base64"
	"fmt"
	"net/url"
	"strings"
	"sync"
	"testing"
	"time"

	"github.com/containerd/containerd/v2/pkg/reference"
	crikeychain "github.com/containerd/stargz-snapshotter/service/keychain/cri"
	distribution "github.com/distribution/reference"
	"google.golang.org/grpc"
	"pgregory.net/rapid"
	runtime "k8s.io/cri-api/pkg/apis/runtime/v1"
	"verifharness/lib/pbt"
)

type Auth struct {
	Form          string `json:"form"` // userpass | token | base64 | empty | nil
	ServerAddress string `json:"server_address,omitempty"`
}

type KOp struct {
	Op      string `json:"op"`  // pull | remove | query
	Ref     int    `json:"ref"` // index into spellings
	Auth    Auth   `json:"auth"`
	Host    int    `json:"host,omitempty"`
	CRIFail bool   `json:"cri_fail,omitempty"` // the backend CRI call fails
}

type KCase struct {
	Ops      []KOp   `json:"ops"`
	Programs [][]KOp `json:"programs,omitempty"` // concurrent variant
}

// spellings of image references; several spell the same image
var spellings = []string{
	"ubuntu", "docker.io/library/ubuntu:latest", "library/ubuntu", "ubuntu:22.04", "docker.io/library/ubuntu:22.04",
	"reg.example.com/app/web:v1", "reg.example.com/app/web", "reg.example.com:5000/app/web:v1", "other.example.com/app/web:v1",
	"ubuntu@sha256:aaaaaaaaaaaaaaaaaaaaaaaaaaaaaaaaaaaaaaaaaaaaaaaaaaaaaaaaaaaaaaaa", "localhost:5000/x:latest",
}

var hosts = []string{"docker.io", "registry-1.docker.io", "index.docker.io", "reg.example.com", "reg.example.com:5000", "other.example.com", "localhost:5000", "mirror.example.com"}

var serverAddresses = []string{"", "", "https://index.docker.io/v1/", "https://reg.example.com", "reg.example.com", "https://reg.example.com:5000", "http://other.example.com/v2/", "https://mirror.example.com", "https://docker.io", "://bad"}

func genKOp(t *rapid.T) KOp {
	o := KOp{Op: rapid.SampledFrom([]string{"pull", "pull", "pull", "remove", "query", "query", "query"}).Draw(t, "op"), Ref: rapid.IntRange(0, len(spellings)-1).Draw(t, "ref")}
	switch o.Op {
	case "pull":
		o.Auth = Auth{Form: rapid.SampledFrom([]string{"userpass", "userpass", "token", "base64", "empty", "nil"}).Draw(t, "form"), ServerAddress: rapid.SampledFrom(serverAddresses).Draw(t, "addr")}
		o.CRIFail = rapid.IntRange(0, 4).Draw(t, "crifail") == 0
	case "remove":
		o.CRIFail = rapid.IntRange(0, 4).Draw(t, "crifail") == 0
	case "query":
		o.Host = rapid.IntRange(0, len(hosts)-1).Draw(t, "host")
	}
	return o
}

func genK(t *rapid.T) KCase {
	return KCase{Ops: rapid.SliceOfN(rapid.Custom(genKOp), 1, 30).Draw(t, "ops")}
}

type fakeCRI struct {
	mu   sync.Mutex
	fail bool
}

func (f *fakeCRI) err() error {
	f.mu.Lock()
	defer f.mu.Unlock()
	if f.fail {
		return fmt.Errorf("backend CRI failure (scripted)")
	}
	return nil
}
func (f *fakeCRI) ListImages(ctx context.Context, in *runtime.ListImagesRequest, opts ...grpc.CallOption) (*runtime.ListImagesResponse, error) {
	return &runtime.ListImagesResponse{}, nil
}
func (f *fakeCRI) ImageStatus(ctx context.Context, in *runtime.ImageStatusRequest, opts ...grpc.CallOption) (*runtime.ImageStatusResponse, error) {
	return &runtime.ImageStatusResponse{}, nil
}
func (f *fakeCRI) PullImage(ctx context.Context, in *runtime.PullImageRequest, opts ...grpc.CallOption) (*runtime.PullImageResponse, error) {
	if err := f.err(); err != nil {
		return nil, err
	}
	return &runtime.PullImageResponse{ImageRef: in.GetImage().GetImage()}, nil
}
func (f *fakeCRI) RemoveImage(ctx context.Context, in *runtime.RemoveImageRequest, opts ...grpc.CallOption) (*runtime.RemoveImageResponse, error) {
	if err := f.err(); err != nil {
		return nil, err
	}
	return &runtime.RemoveImageResponse{}, nil
}
func (f *fakeCRI) ImageFsInfo(ctx context.Context, in *runtime.ImageFsInfoRequest, opts ...grpc.CallOption) (*runtime.ImageFsInfoResponse, error) {
	return &runtime.ImageFsInfoResponse{}, nil
}

// canonical returns the normalised reference string (docker reference normalisation is a library, trusted here).
func canonical(s string) string {
	n, err := distribution.ParseDockerRef(s)
	if err != nil {
		return ""
	}
	return n.String()
}

type secret struct {
	user, pass string
	addr       string
	form       string
}

func mkAuth(a Auth, id int) (*runtime.AuthConfig, secret) {
	sec := secret{user: fmt.Sprintf("user-%d", id), pass: fmt.Sprintf("pass-%d", id), addr: a.ServerAddress, form: a.Form}
	switch a.Form {
	case "nil":
		return nil, secret{form: "nil"}
	case "empty":
		return &runtime.AuthConfig{ServerAddress: a.ServerAddress}, secret{form: "empty", addr: a.ServerAddress}
	case "userpass":
		return &runtime.AuthConfig{Username: sec.user, Password: sec.pass, ServerAddress: a.ServerAddress}, sec
	case "token":
		sec.user = ""
		return &runtime.AuthConfig{IdentityToken: sec.pass, ServerAddress: a.ServerAddress}, sec
	default: // base64
		return &runtime.AuthConfig{Auth: base64.StdEncoding.EncodeToString([]byte(sec.user + ":" + sec.pass)), ServerAddress: a.ServerAddress}, sec
	}
}

// expected answer for a query, from the statement
func expected(sec *secret, host string) (user, pass string, mayErr bool) {
	if sec == nil || sec.form == "nil" || sec.form == "empty" {
		return "", "", sec != nil && sec.addr == "://bad"
	}
	if host == "docker.io" || host == "registry-1.docker.io" {
		host = "index.docker.io"
	}
	if sec.addr != "" {
		u, err := url.Parse(sec.addr)
		if err != nil {
			return "", "", true
		}
		if u.Host != host {
			return "", "", false
		}
	}
	return sec.user, sec.pass, false
}

func newKeychain() (func(string, reference.Spec) (string, string, error), runtime.ImageServiceServer, *fakeCRI, error) {
	fake := &fakeCRI{}
	creds, srv := crikeychain.NewCRIKeychain(context.Background(), func() (runtime.ImageServiceClient, error) { return fake, nil })
	deadline := time.Now().Add(5 * time.Second)
	for {
		if _, err := srv.ListImages(context.Background(), &runtime.ListImagesRequest{}); err == nil {
			break
		}
		if time.Now().After(deadline) {
			return nil, nil, nil, fmt.Errorf("keychain never connected to the fake CRI")
		}
		time.Sleep(200 * time.Microsecond)
	}
	return creds, srv, fake, nil
}

func runK(c KCase, ev *pbt.Ev) error {
	creds, srv, fake, err := newKeychain()
	if err != nil {
		return pbt.Inconclusive("%v", err)
	}
	model := map[string]*secret{} // canonical ref -> secret of the most recent pull
	ctx := context.Background()
	repull, removedThenQuery := false, false
	removed := map[string]bool{}
	for i, op := range c.Ops {
		ref := spellings[op.Ref]
		can := canonical(ref)
		fake.mu.Lock()
		fake.fail = op.CRIFail
		fake.mu.Unlock()
		switch op.Op {
		case "pull":
			auth, sec := mkAuth(op.Auth, i)
			srv.PullImage(ctx, &runtime.PullImageRequest{Image: &runtime.ImageSpec{Image: ref}, Auth: auth})
			if old, ok := model[can]; ok && old != nil {
				repull = true
			}
			s := sec
			model[can] = &s
			delete(removed, can)
		case "remove":
			srv.RemoveImage(ctx, &runtime.RemoveImageRequest{Image: &runtime.ImageSpec{Image: ref}})
			if _, ok := model[can]; ok {
				removed[can] = true
			}
			delete(model, can)
		case "query":
			spec, err := reference.Parse(can)
			if err != nil {
				return pbt.Inconclusive("reference %q: %v", can, err)
			}
			host := hosts[op.Host]
			u, p, qerr := creds(host, spec)
			wu, wp, mayErr := expected(model[can], host)
			if qerr != nil {
				if !mayErr {
					return pbt.Violf("query-error", "step %d: credentials(%q, %q) failed: %v", i, host, can, qerr)
				}
				continue
			}
			if u != wu || p != wp {
				kind := "wrong-credentials"
				if wu == "" && wp == "" {
					kind = "credentials-leaked"
				}
				return pbt.Violf(kind, "step %d: credentials(host %q, ref %q) = (%q, %q); the most recent pull of that reference gives (%q, %q) (model: %+v)", i, host, can, u, p, wu, wp, model[can])
			}
			if removed[can] {
				removedThenQuery = true
			}
		}
		ev.Steps++
	}
	ev.ClassIf(repull, "re-pull-with-other-auth")
	ev.ClassIf(removedThenQuery, "query-after-remove")
	ev.NTIf(repull || removedThenQuery)
	return nil
}

func TestProp_Keychain(t *testing.T) {
	pbt.Run(t, pbt.Options{Prop: "C18", Name: "Keychain", Quick: 40000, Thorough: 1200000,
		Rule: "rapid: 1-30 CRI requests PullImage(ref, auth) / RemoveImage(ref) over 11 spellings of 7 images (docker.io short names, tags, digests, ports), auth forms {user+password, identity token, base64 auth, empty, none} with server address {none, matching, scheme-less, other host, other port, docker.io alias, unparsable}, each secret unique, backend CRI call optionally failing; interleaved queries credentials(host, normalised ref) over 8 hosts; " +
			"oracle: reference model (normalised reference -> secret of the most recent pull; removal deletes): the answer equals that secret iff no server address was given or its host equals the queried host (docker.io / registry-1.docker.io => index.docker.io), and is empty otherwise. non-trivial = a reference re-pulled with other credentials, or queried after its removal",
	}, genK, runK)
}

// ---------------------------------------------------------------------------------------
// concurrent pulls / removes / queries: a query never returns a secret that was not pulled for that reference

func genKConc(t *rapid.T) KCase {
	var c KCase
	g := rapid.IntRange(2, 6).Draw(t, "goroutines")
	for i := 0; i < g; i++ {
		c.Programs = append(c.Programs, rapid.SliceOfN(rapid.Custom(genKOp), 1, 15).Draw(t, "prog"))
	}
	return c
}

func runKConc(c KCase, ev *pbt.Ev) error {
	creds, srv, _, err := newKeychain()
	if err != nil {
		return pbt.Inconclusive("%v", err)
	}
	var (
		mu      sync.Mutex
		pulled  = map[string]map[string]bool{} // canonical ref -> set of "user\x00pass" ever pulled for it
		firstEr error
		wg      sync.WaitGroup
	)
	ctx := context.Background()
	for gi, prog := range c.Programs {
		wg.Add(1)
		go func(gi int, prog []KOp) {
			defer wg.Done()
			for i, op := range prog {
				ref := spellings[op.Ref]
				can := canonical(ref)
				switch op.Op {
				case "pull":
					auth, sec := mkAuth(op.Auth, gi*1000+i)
					mu.Lock()
					if pulled[can] == nil {
						pulled[can] = map[string]bool{}
					}
					pulled[can][sec.user+"\x00"+sec.pass] = true
					mu.Unlock()
					srv.PullImage(ctx, &runtime.PullImageRequest{Image: &runtime.ImageSpec{Image: ref}, Auth: auth})
				case "remove":
					srv.RemoveImage(ctx, &runtime.RemoveImageRequest{Image: &runtime.ImageSpec{Image: ref}})
				case "query":
					spec, _ := reference.Parse(can)
					u, p, qerr := creds(hosts[op.Host], spec)
					if qerr != nil || (u == "" && p == "") {
						continue
					}
					mu.Lock()
					ok := pulled[can][u+"\x00"+p]
					if !ok && firstEr == nil {
						firstEr = pbt.Violf("credentials-leaked", "goroutine %d: credentials(%q, %q) = (%q, %q) which were never pulled for that reference", gi, hosts[op.Host], can, u, p)
					}
					mu.Unlock()
				}
			}
		}(gi, prog)
	}
	wg.Wait()
	ev.NT()
	return firstEr
}

func TestProp_KeychainConcurrent(t *testing.T) {
	pbt.Run(t, pbt.Options{Prop: "C18", Name: "KeychainConcurrent", Quick: 4000, Thorough: 120000,
		Rule: "rapid: 2-6 goroutines x 1-15 pull/remove/query requests on one keychain; invariant valid for every linearisation: a non-empty answer for (host, ref) is a secret that some pull request supplied for exactly that reference. Run under the race detector. non-trivial = every case",
	}, genKConc, runKConc)
}

var _ = strings.TrimSpace
