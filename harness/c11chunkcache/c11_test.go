// C11 — a chunk-cache hit returns exactly the bytes committed under that key.
package c11chunkcache

import (
	"bytes"
	"encoding/binary"
	"fmt"
	"io"
	"os"
	"path/filepath"
	"runtime"
	"sync"
	"sync/atomic"
	"testing"
	"time"

	"github.com/containerd/stargz-snapshotter/cache"
	"github.com/containerd/stargz-snapshotter/util/cacheutil"
	"pgregory.net/rapid"
	"verifharness/lib/pbt"
)

type Op struct {
	Op     string `json:"op"` // add | get | yield
	Key    int    `json:"key,omitempty"`
	Len    int    `json:"len,omitempty"`    // value length (payload after the header)
	Pieces int    `json:"pieces,omitempty"` // number of Write calls
	Abort  bool   `json:"abort,omitempty"`
	Direct bool   `json:"direct,omitempty"`
	Hold   bool   `json:"hold,omitempty"` // keep the reader open until the end of the program and re-read it then
}

type Case struct {
	Kind     string `json:"kind"` // directory | memory
	DataLRU  int    `json:"data_lru"`
	FdLRU    int    `json:"fd_lru"`
	Direct   bool   `json:"direct"`
	SyncAdd  bool   `json:"sync_add"`
	Fadv     bool   `json:"fadv_dontneed"`
	Keys     int    `json:"keys"`
	Programs [][]Op `json:"programs"`
}

func gen(t *rapid.T) Case {
	c := Case{Kind: rapid.SampledFrom([]string{"directory", "directory", "directory", "memory"}).Draw(t, "kind"),
		DataLRU: rapid.IntRange(1, 3).Draw(t, "datalru"), FdLRU: rapid.IntRange(1, 3).Draw(t, "fdlru"),
		Direct: rapid.IntRange(0, 3).Draw(t, "direct") == 0, SyncAdd: rapid.Bool().Draw(t, "syncadd"), Fadv: rapid.IntRange(0, 3).Draw(t, "fadv") == 0,
		Keys: rapid.IntRange(2, 8).Draw(t, "keys")}
	g := rapid.IntRange(1, 8).Draw(t, "goroutines")
	for i := 0; i < g; i++ {
		c.Programs = append(c.Programs, rapid.SliceOfN(rapid.Custom(func(t *rapid.T) Op {
			o := Op{Op: rapid.SampledFrom([]string{"add", "add", "get", "get", "get", "yield"}).Draw(t, "op"), Key: rapid.IntRange(0, c.Keys-1).Draw(t, "key")}
			o.Direct = rapid.IntRange(0, 3).Draw(t, "opdirect") == 0
			if o.Op == "add" {
				o.Len = rapid.SampledFrom([]int{0, 0, 1, 10, 100, 5000}).Draw(t, "len")
				o.Pieces = rapid.IntRange(1, 3).Draw(t, "pieces")
				o.Abort = rapid.IntRange(0, 3).Draw(t, "abort") == 0
			} else if o.Op == "get" {
				o.Hold = rapid.IntRange(0, 4).Draw(t, "hold") == 0
			}
			return o
		}), 1, 20).Draw(t, "prog"))
	}
	return c
}

const magic = 0x5ca1ab1e

// value(k, ver, n) = header(magic, k, ver, n) || PRG(k, ver)[0:n]
func value(k, ver, n int) []byte {
	b := make([]byte, 16+n)
	binary.LittleEndian.PutUint32(b[0:], magic)
	binary.LittleEndian.PutUint32(b[4:], uint32(k))
	binary.LittleEndian.PutUint32(b[8:], uint32(ver))
	binary.LittleEndian.PutUint32(b[12:], uint32(n))
	x := uint32(k*7919+ver*104729) | 1
	for i := 0; i < n; i++ {
		x ^= x << 13
		x ^= x >> 17
		x ^= x << 5
		b[16+i] = byte(x)
	}
	return b
}

const (
	stWriting = iota
	stCommitStarted
	stAborted
)

type verState struct {
	key   int
	n     int
	state atomic.Int32
}

func keyName(k int) string { return fmt.Sprintf("abcdef0123456789-%d", k) } // same shard directory, differ in the last character only

func run(c Case, ev *pbt.Ev) error {
	var bc cache.BlobCache
	var dir string
	if c.Kind == "memory" {
		bc = cache.NewMemoryCache()
	} else {
		d, err := os.MkdirTemp("", "c11")
		if err != nil {
			return pbt.Inconclusive("%v", err)
		}
		dir = d
		defer os.RemoveAll(d)
		pool := &sync.Pool{New: func() any { return new(bytes.Buffer) }}
		dcache, fcache := cacheutil.NewLRUCache(c.DataLRU), cacheutil.NewLRUCache(c.FdLRU)
		dcache.OnEvicted = func(key string, value any) { value.(*bytes.Buffer).Reset(); pool.Put(value) }
		fcache.OnEvicted = func(key string, value any) { value.(*os.File).Close() }
		bc, err = cache.NewDirectoryCache(filepath.Join(d, "cache"), cache.DirectoryCacheConfig{SyncAdd: c.SyncAdd, DataCache: dcache, FdCache: fcache, BufPool: pool, Direct: c.Direct, FadvDontNeed: c.Fadv})
		if err != nil {
			return pbt.Inconclusive("%v", err)
		}
	}
	var (
		verMu    sync.Mutex
		vers     []*verState // index = version number
		firstErr atomic.Pointer[error]
		hits     atomic.Int32
		sameKey  atomic.Int32
		wg       sync.WaitGroup
	)
	touched := make([]atomic.Int32, c.Keys) // goroutines that touched each key (bitmask)
	fail := func(err error) { firstErr.CompareAndSwap(nil, &err) }
	newVer := func(k, n int) int {
		verMu.Lock()
		defer verMu.Unlock()
		vers = append(vers, &verState{key: k, n: n})
		return len(vers) - 1
	}
	getVer := func(v int) *verState {
		verMu.Lock()
		defer verMu.Unlock()
		if v < 0 || v >= len(vers) {
			return nil
		}
		return vers[v]
	}
	// check validates the bytes of one hit.  It is called after the read ended, so the version it names must
	// have reached "commit started" by now and must never be "aborted" / still being written.
	check := func(gi int, k int, got []byte, what string) bool {
		if len(got) < 16 || binary.LittleEndian.Uint32(got) != magic {
			fail(pbt.Violf("hit-garbage", "goroutine %d: %s of key %d returned %d bytes without a value header (a prefix or recycled buffer)", gi, what, k, len(got)))
			return false
		}
		gk, gv, gn := int(binary.LittleEndian.Uint32(got[4:])), int(binary.LittleEndian.Uint32(got[8:])), int(binary.LittleEndian.Uint32(got[12:]))
		if gk != k {
			fail(pbt.Violf("hit-other-key", "goroutine %d: %s of key %d returned a value written for key %d (version %d)", gi, what, k, gk, gv))
			return false
		}
		vs := getVer(gv)
		if vs == nil || vs.key != k || vs.n != gn {
			fail(pbt.Violf("hit-garbage", "goroutine %d: %s of key %d returned an unknown version %d", gi, what, k, gv))
			return false
		}
		if len(got) != 16+gn || !bytes.Equal(got, value(k, gv, gn)) {
			fail(pbt.Violf("hit-partial", "goroutine %d: %s of key %d returned %d bytes of version %d whose full value has %d bytes (equal prefix: %v)", gi, what, k, len(got), gv, 16+gn, bytes.HasPrefix(value(k, gv, gn), got)))
			return false
		}
		switch vs.state.Load() {
		case stWriting:
			fail(pbt.Violf("hit-uncommitted", "goroutine %d: %s of key %d returned version %d whose writer has not started to commit", gi, what, k, gv))
			return false
		case stAborted:
			fail(pbt.Violf("hit-aborted", "goroutine %d: %s of key %d returned version %d which was aborted", gi, what, k, gv))
			return false
		}
		return true
	}
	readAll := func(r cache.Reader) []byte {
		var out []byte
		buf := make([]byte, 4096)
		var off int64
		for {
			n, err := r.ReadAt(buf, off)
			out = append(out, buf[:n]...)
			off += int64(n)
			if err != nil || n == 0 {
				return out
			}
		}
	}
	start := make(chan struct{})
	for gi, prog := range c.Programs {
		wg.Add(1)
		go func(gi int, prog []Op) {
			defer wg.Done()
			type held struct {
				r     cache.Reader
				k     int
				first []byte
			}
			var helds []held
			<-start
			for _, op := range prog {
				if op.Op != "yield" {
					if old := touched[op.Key].Or(1 << uint(gi)); old&^(1<<uint(gi)) != 0 {
						sameKey.Add(1)
					}
				}
				var opts []cache.Option
				if op.Direct {
					opts = append(opts, cache.Direct())
				}
				switch op.Op {
				case "yield":
					runtime.Gosched()
				case "add":
					ver := newVer(op.Key, op.Len)
					val := value(op.Key, ver, op.Len)
					w, err := bc.Add(keyName(op.Key), opts...)
					if err != nil {
						fail(pbt.Violf("add-failed", "Add: %v", err))
						return
					}
					step := (len(val) + op.Pieces - 1) / op.Pieces
					for off := 0; off < len(val); off += step {
						end := off + step
						if end > len(val) {
							end = len(val)
						}
						if _, err := w.Write(val[off:end]); err != nil {
							fail(pbt.Violf("write-failed", "Write: %v", err))
						}
						runtime.Gosched()
					}
					vs := getVer(ver)
					if op.Abort {
						vs.state.Store(stAborted)
						w.Abort()
					} else {
						vs.state.Store(stCommitStarted)
						if err := w.Commit(); err != nil {
							fail(pbt.Violf("commit-failed", "Commit: %v", err))
						}
					}
					w.Close()
				case "get":
					r, err := bc.Get(keyName(op.Key), opts...)
					if err != nil {
						continue // miss
					}
					got := readAll(r)
					if check(gi, op.Key, got, "Get") {
						hits.Add(1)
						// a read through an open reader is stable
						if again := readAll(r); !bytes.Equal(again, got) {
							fail(pbt.Violf("reader-unstable", "goroutine %d: two reads through one open reader of key %d differ", gi, op.Key))
						}
					}
					if op.Hold {
						helds = append(helds, held{r, op.Key, got})
					} else {
						r.Close()
					}
				}
			}
			for _, h := range helds {
				// readers kept open across other goroutines' adds / evictions still show the same committed value
				if again := readAll(h.r); !bytes.Equal(again, h.first) {
					fail(pbt.Violf("held-reader-changed", "goroutine %d: a reader of key %d that was kept open returns different bytes at the end (%d vs %d bytes)", gi, h.k, len(again), len(h.first)))
				}
				h.r.Close()
			}
		}(gi, prog)
	}
	close(start)
	wg.Wait()
	if p := firstErr.Load(); p != nil {
		return *p
	}
	// quiescence: wait for background persistence (wip directory drains), then every key is a miss or a committed value
	if dir != "" {
		deadline := time.Now().Add(10 * time.Second)
		for {
			ents, _ := os.ReadDir(filepath.Join(dir, "cache", "wip"))
			if len(ents) == 0 || time.Now().After(deadline) {
				break
			}
			time.Sleep(2 * time.Millisecond)
		}
	}
	for k := 0; k < c.Keys; k++ {
		for _, direct := range []bool{false, true} {
			var opts []cache.Option
			if direct {
				opts = append(opts, cache.Direct())
			}
			r, err := bc.Get(keyName(k), opts...)
			if err != nil {
				continue
			}
			check(-1, k, readAll(r), fmt.Sprintf("final Get(direct=%v)", direct))
			r.Close()
		}
	}
	if p := firstErr.Load(); p != nil {
		return *p
	}
	bc.Close()
	ev.Class("kind-" + c.Kind)
	ev.ClassIf(hits.Load() > 0, "had-hits")
	ev.ClassIf(sameKey.Load() > 0, "key-shared-between-goroutines")
	ev.ClassIf(c.Direct, "direct-mode")
	ev.ClassIf(!c.SyncAdd && c.Kind == "directory", "async-persistence")
	ev.NTIf(sameKey.Load() > 0 && hits.Load() > 0 && len(c.Programs) >= 2)
	_ = io.EOF
	return nil
}

func TestProp_Cache(t *testing.T) {
	pbt.Run(t, pbt.Options{Prop: "C11", Name: "Cache", Quick: 6000, Thorough: 120000, Timeout: 120 * time.Second,
		Rule: "rapid: directory cache (data LRU 1-3, fd LRU 1-3, Direct, SyncAdd on/off, FadvDontNeed) or memory cache; 1-8 goroutines x 1-20 ops over 2-8 keys: Add + 1-3 Writes + Commit|Abort (values 0-5000 bytes, per-call Direct), Get + full read + re-read (+ reader kept open until the end), yields; values are self-describing (key, version, length, PRG); " +
			"oracle for every hit, evaluated after the read ended: right key, complete length, exact bytes, version whose Commit had started and which was never aborted; reads through one open reader agree; after quiescence (background persistence drained) every key is a miss or a committed value, via the memory layer and via Direct. " +
			"non-trivial = >= 2 goroutines touched the same key and there were hits. Run under the race detector.",
	}, gen, run)
}
