// C10 — refcounted caches finalise each value exactly once and never while it is held.
package c10refcache

import (
	"fmt"
	"runtime"
	"sort"
	"sync"
	"sync/atomic"
	"testing"
	"time"

	"github.com/containerd/stargz-snapshotter/util/cacheutil"
	"pgregory.net/rapid"
	"verifharness/lib/pbt"
)

// ---------------------------------------------------------------------------------------
// common adapter over the two caches

type val struct {
	id   int
	held atomic.Int32 // number of holders that currently believe they hold it (harness side)
	fin  atomic.Int32 // number of OnEvicted calls
	// heldAtFin is the value of held observed by the first callback
	heldAtFin atomic.Int32
}

type cacheAPI interface {
	Add(key string, v *val) (got *val, done func(evict bool), added bool)
	Get(key string) (got *val, done func(evict bool), ok bool)
	Remove(key string)
}

type ttlAdapter struct{ c *cacheutil.TTLCache }

func (a ttlAdapter) Add(k string, v *val) (*val, func(bool), bool) {
	g, d, added := a.c.Add(k, v)
	return g.(*val), d, added
}
func (a ttlAdapter) Get(k string) (*val, func(bool), bool) {
	g, d, ok := a.c.Get(k)
	if !ok {
		return nil, nil, false
	}
	return g.(*val), d, true
}
func (a ttlAdapter) Remove(k string) { a.c.Remove(k) }

type lruAdapter struct{ c *cacheutil.LRUCache }

func (a lruAdapter) Add(k string, v *val) (*val, func(bool), bool) {
	g, d, added := a.c.Add(k, v)
	return g.(*val), func(bool) { d() }, added
}
func (a lruAdapter) Get(k string) (*val, func(bool), bool) {
	g, d, ok := a.c.Get(k)
	if !ok {
		return nil, nil, false
	}
	return g.(*val), func(bool) { d() }, true
}
func (a lruAdapter) Remove(k string) { a.c.Remove(k) }

func onEvicted(_ string, value any) {
	v := value.(*val)
	if v.fin.Add(1) == 1 {
		v.heldAtFin.Store(v.held.Load())
	}
}

func newCache(kind string, capacity int, ttl time.Duration) cacheAPI {
	if kind == "ttl" {
		c := cacheutil.NewTTLCache(ttl)
		c.OnEvicted = onEvicted
		return ttlAdapter{c}
	}
	c := cacheutil.NewLRUCache(capacity)
	c.OnEvicted = onEvicted
	return lruAdapter{c}
}

// ---------------------------------------------------------------------------------------
// sequential, exact model

type Op struct {
	Op     string `json:"op"` // add | get | remove | release
	Key    int    `json:"key,omitempty"`
	Handle int    `json:"handle,omitempty"` // index into the list of handles obtained so far (mod len)
	Evict  bool   `json:"evict,omitempty"`
}

type SeqCase struct {
	Kind string `json:"kind"` // ttl | lru
	Cap  int    `json:"cap"`  // lru capacity
	Ops  []Op   `json:"ops"`
}

func genOp(t *rapid.T, nkeys int, withSleep bool) Op {
	kinds := []string{"add", "add", "get", "get", "remove", "release", "release", "release"}
	if withSleep {
		kinds = append(kinds, "sleep", "yield", "release2")
	}
	o := Op{Op: rapid.SampledFrom(kinds).Draw(t, "op")}
	switch o.Op {
	case "add", "get", "remove":
		o.Key = rapid.IntRange(0, nkeys-1).Draw(t, "key")
	case "release", "release2":
		o.Handle = rapid.IntRange(0, 15).Draw(t, "handle")
		o.Evict = rapid.Bool().Draw(t, "evict")
	case "sleep":
		o.Key = rapid.IntRange(1, 1500).Draw(t, "us")
	}
	return o
}

func genSeq(t *rapid.T) SeqCase {
	c := SeqCase{Kind: rapid.SampledFrom([]string{"ttl", "lru"}).Draw(t, "kind")}
	c.Cap = rapid.IntRange(1, 3).Draw(t, "cap")
	c.Ops = rapid.SliceOfN(rapid.Custom(func(t *rapid.T) Op { return genOp(t, 3, false) }), 1, 40).Draw(t, "ops")
	return c
}

type mval struct {
	v        *val
	key      string
	holders  int
	inCache  bool
	rejected bool // passed to Add but the key was present
}

type handle struct {
	m        *mval
	done     func(bool)
	released bool
}

func runSeq(c SeqCase, ev *pbt.Ev) error {
	cache := newCache(c.Kind, c.Cap, time.Hour)
	var (
		all     []*mval
		handles []*handle
		members = map[string]*mval{} // model: key -> value in cache
		lru     []string             // model recency, most recent first (lru kind only)
	)
	touch := func(k string) {
		for i, x := range lru {
			if x == k {
				lru = append(lru[:i], lru[i+1:]...)
				break
			}
		}
		lru = append([]string{k}, lru...)
	}
	drop := func(k string) {
		for i, x := range lru {
			if x == k {
				lru = append(lru[:i], lru[i+1:]...)
				return
			}
		}
	}
	check := func(step int, op Op) error {
		for _, m := range all {
			fin := int(m.v.fin.Load())
			switch {
			case m.rejected:
				if fin != 0 {
					return pbt.Violf("finalised-rejected", "step %d %+v: value #%d was rejected by Add (added=false) but its eviction callback ran", step, op, m.v.id)
				}
			case m.inCache || m.holders > 0:
				if fin != 0 {
					return pbt.Violf("finalised-early", "step %d %+v: value #%d finalised while inCache=%v holders=%d", step, op, m.v.id, m.inCache, m.holders)
				}
			default:
				if fin != 1 {
					return pbt.Violf("finalised-count", "step %d %+v: value #%d left the cache and has no holders, callback ran %d times (want 1)", step, op, m.v.id, fin)
				}
			}
		}
		return nil
	}
	for i, op := range c.Ops {
		k := fmt.Sprintf("k%d", op.Key)
		switch op.Op {
		case "add":
			nv := &mval{v: &val{id: len(all)}, key: k}
			all = append(all, nv)
			got, done, added := cache.Add(k, nv.v)
			if cur, ok := members[k]; ok {
				nv.rejected = true
				if added || got != cur.v {
					return pbt.Violf("add-replaced", "step %d: Add(%s) with the key present returned added=%v value #%d, cached is #%d", i, k, added, got.id, cur.v.id)
				}
				cur.holders++
				handles = append(handles, &handle{m: cur, done: done})
				if c.Kind == "lru" {
					touch(k)
				}
				ev.ClassIf(cur.holders > 1, "add-existing-held")
			} else {
				if !added || got != nv.v {
					return pbt.Violf("add-not-added", "step %d: Add(%s) with the key absent returned added=%v value #%d", i, k, added, got.id)
				}
				// is an older value of this key still held?
				for _, m := range all {
					if m != nv && m.key == k && !m.rejected && m.holders > 0 {
						ev.Class("readd-while-old-held")
						ev.NT()
					}
				}
				nv.inCache = true
				nv.holders = 1
				members[k] = nv
				handles = append(handles, &handle{m: nv, done: done})
				if c.Kind == "lru" {
					touch(k)
					if len(lru) > c.Cap {
						victim := lru[len(lru)-1]
						lru = lru[:len(lru)-1]
						vm := members[victim]
						vm.inCache = false
						delete(members, victim)
						ev.Class("capacity-eviction")
						if vm.holders > 0 {
							ev.Class("capacity-eviction-of-held")
							ev.NT()
						}
					}
				}
			}
		case "get":
			got, done, ok := cache.Get(k)
			cur, present := members[k]
			if ok != present {
				return pbt.Violf("get-membership", "step %d: Get(%s) ok=%v, model present=%v", i, k, ok, present)
			}
			if ok {
				if got != cur.v {
					return pbt.Violf("get-value", "step %d: Get(%s) returned #%d, cached is #%d", i, k, got.id, cur.v.id)
				}
				cur.holders++
				handles = append(handles, &handle{m: cur, done: done})
				if c.Kind == "lru" {
					touch(k)
				}
			}
		case "remove":
			cache.Remove(k)
			if cur, ok := members[k]; ok {
				cur.inCache = false
				delete(members, k)
				drop(k)
				ev.ClassIf(cur.holders > 0, "remove-while-held")
			}
		case "release":
			if len(handles) == 0 {
				ev.Skipped++
				continue
			}
			h := handles[op.Handle%len(handles)]
			evict := op.Evict && c.Kind == "ttl"
			if h.released {
				ev.Class("double-release")
			}
			h.done(evict)
			if !h.released {
				h.released = true
				h.m.holders--
			}
			if evict {
				if cur, ok := members[h.m.key]; ok && cur == h.m {
					delete(members, h.m.key)
					h.m.inCache = false
					if h.m.holders > 0 {
						ev.Class("evicting-release-with-other-holder")
						ev.NT()
					}
				} else if ok {
					ev.Class("evicting-release-of-stale-value")
					ev.NT()
				}
			}
		}
		ev.Steps++
		if err := check(i, op); err != nil {
			return err
		}
	}
	// drain: remove every key, release every handle: everything added must be finalised once
	for k := range members {
		cache.Remove(k)
		members[k].inCache = false
	}
	for _, h := range handles {
		h.done(false)
		if !h.released {
			h.released = true
			h.m.holders--
		}
	}
	if err := check(len(c.Ops), Op{Op: "drain"}); err != nil {
		return err
	}
	ev.Class("kind-" + c.Kind)
	return nil
}

func TestProp_Seq(t *testing.T) {
	pbt.Run(t, pbt.Options{Prop: "C10", Name: "Seq", Quick: 120000, Thorough: 3600000,
		Rule: "rapid: cache kind {ttl,lru(cap 1-3)} + 1-40 ops of add/get/remove/release(any earlier handle, evict flag, repeats allowed) over 3 keys, exact reference model " +
			"(membership, LRU recency, holder counts, finalised set) compared after every step and after drain; non-trivial = re-add while an older value of the key is held, " +
			"or evicting release with another holder / of a stale value, or capacity eviction of a held value",
	}, genSeq, runSeq)
}

// ---------------------------------------------------------------------------------------
// real timers + concurrency: invariants only

type ConcCase struct {
	Kind     string `json:"kind"`
	Cap      int    `json:"cap"`
	TTLus    int    `json:"ttl_us"`
	Programs [][]Op `json:"programs"`
}

func genConc(t *rapid.T) ConcCase {
	c := ConcCase{Kind: rapid.SampledFrom([]string{"ttl", "ttl", "lru"}).Draw(t, "kind")}
	c.Cap = rapid.IntRange(1, 3).Draw(t, "cap")
	c.TTLus = rapid.SampledFrom([]int{200, 1000, 3000, 3600000000}).Draw(t, "ttl")
	g := rapid.IntRange(1, 6).Draw(t, "goroutines")
	for i := 0; i < g; i++ {
		c.Programs = append(c.Programs, rapid.SliceOfN(rapid.Custom(func(t *rapid.T) Op { return genOp(t, 3, true) }), 1, 25).Draw(t, "prog"))
	}
	return c
}

func runConc(c ConcCase, ev *pbt.Ev) error {
	cache := newCache(c.Kind, c.Cap, time.Duration(c.TTLus)*time.Microsecond)
	var (
		mu      sync.Mutex
		added   []*val
		reject  []*val
		nextID  atomic.Int32
		firstEr atomic.Pointer[error]
		wg      sync.WaitGroup
	)
	fail := func(err error) { firstEr.CompareAndSwap(nil, &err) }
	type h struct {
		v        *val
		done     func(bool)
		released bool
	}
	start := make(chan struct{})
	for gi, prog := range c.Programs {
		wg.Add(1)
		go func(gi int, prog []Op) {
			defer wg.Done()
			var hs []*h
			<-start
			acquire := func(v *val, done func(bool), what string) {
				v.held.Add(1)
				// we hold a reference now: the value must not be finalised while we do
				if v.fin.Load() != 0 {
					fail(pbt.Violf("returned-after-finalise", "goroutine %d: %s returned value #%d whose eviction callback had already run", gi, what, v.id))
				}
				hs = append(hs, &h{v: v, done: done})
			}
			for _, op := range prog {
				k := fmt.Sprintf("k%d", op.Key)
				switch op.Op {
				case "add":
					nv := &val{id: int(nextID.Add(1))}
					got, done, ok := cache.Add(k, nv)
					mu.Lock()
					if ok {
						added = append(added, nv)
					} else {
						reject = append(reject, nv)
					}
					mu.Unlock()
					if ok && got != nv {
						fail(pbt.Violf("add-value", "Add added=true but returned another value"))
					}
					if !ok && got == nv {
						fail(pbt.Violf("add-value", "Add added=false but returned the new value"))
					}
					acquire(got, done, "Add")
				case "get":
					if got, done, ok := cache.Get(k); ok {
						acquire(got, done, "Get")
					}
				case "remove":
					cache.Remove(k)
				case "release":
					if len(hs) == 0 {
						continue
					}
					x := hs[op.Handle%len(hs)]
					if !x.released {
						if x.v.fin.Load() != 0 {
							fail(pbt.Violf("finalised-while-held", "goroutine %d: value #%d finalised while this holder had not released it", gi, x.v.id))
						}
						x.released = true
						x.v.held.Add(-1)
					}
					x.done(op.Evict)
				case "release2":
					// the same release handle invoked from three goroutines at once: still one release
					if len(hs) == 0 {
						continue
					}
					x := hs[op.Handle%len(hs)]
					if !x.released {
						if x.v.fin.Load() != 0 {
							fail(pbt.Violf("finalised-while-held", "goroutine %d: value #%d finalised while this holder had not released it", gi, x.v.id))
						}
						x.released = true
						x.v.held.Add(-1)
					}
					var rw sync.WaitGroup
					gate := make(chan struct{})
					for r := 0; r < 3; r++ {
						rw.Add(1)
						go func() { defer rw.Done(); <-gate; x.done(op.Evict) }()
					}
					close(gate)
					rw.Wait()
				case "sleep":
					time.Sleep(time.Duration(op.Key) * time.Microsecond)
				case "yield":
					runtime.Gosched()
				}
			}
			// release what is left
			for _, x := range hs {
				if !x.released {
					if x.v.fin.Load() != 0 {
						fail(pbt.Violf("finalised-while-held", "goroutine %d: value #%d finalised while this holder had not released it (final)", gi, x.v.id))
					}
					x.released = true
					x.v.held.Add(-1)
					x.done(false)
				}
			}
		}(gi, prog)
	}
	close(start)
	wg.Wait()
	if p := firstEr.Load(); p != nil {
		return *p
	}
	for i := 0; i < 3; i++ {
		cache.Remove(fmt.Sprintf("k%d", i))
	}
	sort.Slice(added, func(i, j int) bool { return added[i].id < added[j].id })
	for _, v := range added {
		if n := v.fin.Load(); n != 1 {
			return pbt.Violf("finalised-count", "after drain value #%d finalised %d times (want exactly 1)", v.id, n)
		}
		if hld := v.heldAtFin.Load(); hld != 0 {
			return pbt.Violf("finalised-while-held", "value #%d: callback observed %d holder(s)", v.id, hld)
		}
	}
	for _, v := range reject {
		if v.fin.Load() != 0 {
			return pbt.Violf("finalised-rejected", "value #%d rejected by Add was finalised", v.id)
		}
	}
	ev.Class("kind-" + c.Kind)
	ev.ClassIf(len(c.Programs) >= 2, "concurrent")
	ev.ClassIf(c.TTLus < 10000 && c.Kind == "ttl", "real-expiry")
	ev.NTIf(len(c.Programs) >= 2 && len(added) >= 2)
	return nil
}

func TestProp_Conc(t *testing.T) {
	pbt.Run(t, pbt.Options{Prop: "C10", Name: "Conc", Quick: 20000, Thorough: 600000,
		Rule: "rapid: 1-6 goroutines x 1-25 ops (add/get/remove/release/sleep/yield) on one TTL (ttl 0.2-3 ms, real timers) or LRU cache; invariants valid for every linearisation: " +
			"callback at most once, never while a holder that obtained the value has not released it, exactly once for every added value after drain, never for rejected values; " +
			"non-trivial = >=2 goroutines and >=2 values added",
	}, genConc, runConc)
}
