// C13 — background tasks yield to prioritized work, stay bounded, never self-overlap.
package c13task

import (
	"context"
	"fmt"
	"strings"
	"sync"
	"sync/atomic"
	"testing"
	"time"

	"github.com/containerd/stargz-snapshotter/task"
	"pgregory.net/rapid"
	"verifharness/lib/pbt"
)

// Body describes how one execution of an invoked task behaves.
type Body struct {
	RunUs       int  `json:"run_us"`                 // work time if not cancelled
	ReactUs     int  `json:"react_us,omitempty"`     // how late it returns after its context was cancelled
	UntilCancel bool `json:"until_cancel,omitempty"` // keeps running until cancelled (or until all prioritized tasks have begun)
}

type Inv struct {
	DelayUs int    `json:"delay_us,omitempty"`
	Bodies  []Body `json:"bodies"` // execution k behaves like Bodies[min(k, len-1)]
}

type Prio struct {
	DelayUs int `json:"delay_us,omitempty"`
	HoldUs  int `json:"hold_us,omitempty"`
}

type Case struct {
	Concurrency int      `json:"concurrency"`
	SilenceUs   int      `json:"silence_us"`
	Invs        []Inv    `json:"invocations"`
	Prios       [][]Prio `json:"prioritized"` // each inner list is one goroutine doing begin/end pairs in sequence
}

func genBody(t *rapid.T) Body {
	b := Body{RunUs: rapid.SampledFrom([]int{0, 50, 200, 1000, 3000}).Draw(t, "run")}
	switch rapid.IntRange(0, 3).Draw(t, "react") {
	case 0:
		b.ReactUs = rapid.SampledFrom([]int{100, 1000, 4000}).Draw(t, "late")
	}
	b.UntilCancel = rapid.IntRange(0, 3).Draw(t, "until") == 0
	return b
}

func gen(t *rapid.T) Case {
	c := Case{Concurrency: rapid.IntRange(1, 3).Draw(t, "conc"), SilenceUs: rapid.SampledFrom([]int{0, 500, 2000, 5000}).Draw(t, "silence")}
	ni := rapid.IntRange(1, 6).Draw(t, "ninv")
	for i := 0; i < ni; i++ {
		c.Invs = append(c.Invs, Inv{DelayUs: rapid.SampledFrom([]int{0, 0, 100, 1000, 3000}).Draw(t, "idelay"),
			Bodies: rapid.SliceOfN(rapid.Custom(genBody), 1, 3).Draw(t, "bodies")})
	}
	np := rapid.IntRange(0, 3).Draw(t, "nprio")
	for i := 0; i < np; i++ {
		c.Prios = append(c.Prios, rapid.SliceOfN(rapid.Custom(func(t *rapid.T) Prio {
			return Prio{DelayUs: rapid.SampledFrom([]int{0, 100, 500, 2000}).Draw(t, "pdelay"), HoldUs: rapid.SampledFrom([]int{0, 100, 1000}).Draw(t, "hold")}
		}), 1, 3).Draw(t, "pseq"))
	}
	if rapid.IntRange(0, 39).Draw(t, "slowreaction") == 0 {
		// every slot is held by a body that reacts to its cancellation very late, more invocations are queued, and
		// a long prioritized task begins: whoever gets the freed slot must not start before that task is over
		c.Invs = nil
		for i := 0; i < c.Concurrency; i++ {
			c.Invs = append(c.Invs, Inv{Bodies: []Body{{UntilCancel: true, ReactUs: 250000}, {RunUs: 50}}})
		}
		nq := rapid.IntRange(1, 2).Draw(t, "queued")
		for i := 0; i < nq; i++ {
			c.Invs = append(c.Invs, Inv{DelayUs: 2000, Bodies: []Body{{RunUs: rapid.SampledFrom([]int{50, 1000}).Draw(t, "qrun")}}})
		}
		c.Prios = [][]Prio{{{DelayUs: 6000, HoldUs: 400000}}}
	}
	return c
}

type event struct {
	seq  int64
	kind string // do | decide
	v    int64
	at   time.Time
}

var (
	traceMu  sync.Mutex
	trace    []event
	traceSeq int64
	doCount  atomic.Int64
)

func init() {
	task.VerifTraceHook = func(ev string, v int64) {
		// called with the manager's notify mutex held: the order of calls is the manager's own order
		traceMu.Lock()
		traceSeq++
		trace = append(trace, event{seq: traceSeq, kind: ev, v: v, at: time.Now()})
		traceMu.Unlock()
		if ev == "do" {
			doCount.Add(1)
		}
	}
}

func us(n int) time.Duration { return time.Duration(n) * time.Microsecond }

// run judges a case; the one rule that depends on wall-clock slack (body start time vs. registration time of a
// prioritized task) is only reported when it fires three times in a row on the same case: on a busy machine a single
// scheduling stall longer than the slack can fake it once, a wrong start decision fakes it every time.
func run(c Case, ev *pbt.Ev) error {
	err := runOnce(c, ev)
	for i := 0; i < 2 && isStartTimeRule(err); i++ {
		ev.Class("start-time-rule-rechecked")
		err = runOnce(c, &pbt.Ev{})
	}
	return err
}

func isStartTimeRule(err error) bool {
	return err != nil && strings.Contains(err.Error(), "executed its first statement when")
}

func runOnce(c Case, ev *pbt.Ev) error {
	traceMu.Lock()
	trace, traceSeq = nil, 0
	traceMu.Unlock()
	doCount.Store(0)
	silence := us(c.SilenceUs)
	m := task.NewBackgroundTaskManager(int64(c.Concurrency), silence)

	var (
		firstErr    atomic.Pointer[error]
		running     atomic.Int32
		maxRunning  atomic.Int32
		bodyStarts  atomic.Int32
		totalPrios  int
		priosBegun  atomic.Int32
		allBegun    = make(chan struct{})
		startMu     sync.Mutex
		startTimes  []time.Time // first statement of every body execution
		lateCancel  atomic.Bool // a body that was running at a prioritized begin reacted late
		prioWhileBg atomic.Bool
		wg          sync.WaitGroup
	)
	for _, ps := range c.Prios {
		totalPrios += len(ps)
	}
	if totalPrios == 0 {
		close(allBegun)
	}
	fail := func(err error) { firstErr.CompareAndSwap(nil, &err) }

	type doneCall struct{ at time.Time }
	var doneMu sync.Mutex
	var doneCalls []doneCall // harness timestamps taken BEFORE each DonePrioritizedTask call (<= the real call time)

	for _, ps := range c.Prios {
		wg.Add(1)
		go func(ps []Prio) {
			defer wg.Done()
			for _, p := range ps {
				time.Sleep(us(p.DelayUs))
				if running.Load() > 0 {
					prioWhileBg.Store(true)
				}
				m.DoPrioritizedTask()
				if int(priosBegun.Add(1)) == totalPrios {
					close(allBegun)
				}
				time.Sleep(us(p.HoldUs))
				doneMu.Lock()
				doneCalls = append(doneCalls, doneCall{at: time.Now()})
				doneMu.Unlock()
				m.DonePrioritizedTask()
			}
		}(ps)
	}

	for ii, inv := range c.Invs {
		wg.Add(1)
		go func(ii int, inv Inv) {
			defer wg.Done()
			time.Sleep(us(inv.DelayUs))
			var (
				active atomic.Int32 // executions of THIS task currently running
				execs  atomic.Int32
				result int // caller-visible result slot, written by the body like backgroundFetch's retN/retErr
			)
			m.InvokeBackgroundTask(func(ctx context.Context) {
				k := int(execs.Add(1)) - 1
				if n := active.Add(1); n > 1 {
					fail(pbt.Violf("self-overlap", "invocation %d: execution %d started while %d earlier execution(s) of the same task were still running", ii, k, n-1))
				}
				bodyStarts.Add(1)
				startMu.Lock()
				startTimes = append(startTimes, time.Now())
				startMu.Unlock()
				r := running.Add(1)
				for {
					mx := maxRunning.Load()
					if r <= mx || maxRunning.CompareAndSwap(mx, r) {
						break
					}
				}
				if int(r) > c.Concurrency {
					fail(pbt.Violf("bound-exceeded", "%d background bodies running at once, limit is %d", r, c.Concurrency))
				}
				result = k // racy by construction if two executions overlap (the race detector sees it too)
				b := inv.Bodies[min(k, len(inv.Bodies)-1)]
				do0 := doCount.Load()
				cancelled := false
				if b.UntilCancel {
					select {
					case <-ctx.Done():
						cancelled = true
					case <-allBegun:
					}
				}
				if !cancelled {
					tm := time.NewTimer(us(b.RunUs))
					select {
					case <-ctx.Done():
						cancelled = true
					case <-tm.C:
					}
					tm.Stop()
				}
				if !cancelled && doCount.Load() > do0 {
					// a prioritized task was registered after this body had started: the body must get cancelled
					select {
					case <-ctx.Done():
						cancelled = true
					case <-time.After(3 * time.Second):
						fail(pbt.Violf("not-cancelled", "invocation %d execution %d: a prioritized task began while the body was running, its context was not cancelled within 3s", ii, k))
					}
				}
				if cancelled && b.ReactUs > 0 {
					lateCancel.Store(true)
					time.Sleep(us(b.ReactUs)) // reacts late
				}
				result = k
				running.Add(-1)
				active.Add(-1)
			}, time.Hour)
			if n := active.Load(); n != 0 {
				fail(pbt.Violf("running-after-return", "invocation %d: InvokeBackgroundTask returned while %d execution(s) of its body were still running", ii, n))
			}
			_ = result
		}(ii, inv)
	}
	wg.Wait()
	if p := firstErr.Load(); p != nil {
		return *p
	}
	// trace oracle: no start decision while a prioritized task is in progress or in its silence period
	traceMu.Lock()
	tr := append([]event(nil), trace...)
	traceMu.Unlock()
	var doTimes []time.Time
	starts := 0
	for _, e := range tr {
		switch e.kind {
		case "do":
			doTimes = append(doTimes, e.at)
		case "decide":
			if e.v > 0 {
				continue // refused: no body started
			}
			starts++
			// every prioritized task registered before this decision must have called Done at least
			// `silence` before it.  Harness timestamps of Done calls are lower bounds of the real call
			// times, sorted; the i-th registered task is matched conservatively: the number of Done calls
			// certainly made early enough must cover all registrations so far.
			nDo := len(doTimes)
			doneMu.Lock()
			early := 0
			for _, d := range doneCalls {
				if !d.at.After(e.at.Add(-silence)) {
					early++
				}
			}
			doneMu.Unlock()
			if early < nDo {
				return pbt.Violf("started-during-prioritized", "a background body was started at a moment when %d prioritized task(s) had begun but only %d had certainly finished more than the silence period (%v) earlier", nDo, early, silence)
			}
		}
	}
	// the same judged by when the bodies really started: a start decision that was taken before a prioritized task
	// began is worthless if the body is only started much later (e.g. after waiting for a free slot).  The decision
	// and the body's first statement are microseconds apart, scheduling hiccups aside: a prioritized task that was
	// registered more than startSlack before a body's first statement and cannot have finished plus the silence
	// period by then is a violation.
	const startSlack = 150 * time.Millisecond
	doneMu.Lock()
	dones := append([]doneCall(nil), doneCalls...)
	doneMu.Unlock()
	for _, ts := range startTimes {
		registered, maybeOver := 0, 0
		for _, d := range doTimes {
			if !d.After(ts.Add(-startSlack)) {
				registered++
			}
		}
		for _, d := range dones {
			if !d.at.Add(silence).After(ts) {
				maybeOver++
			}
		}
		if registered > maybeOver {
			return pbt.Violf("started-during-prioritized", "a background body executed its first statement when %d prioritized task(s) had been registered for more than %v but at most %d can have finished more than the silence period (%v) earlier", registered, startSlack, maybeOver, silence)
		}
	}
	// every started body belongs to exactly one start decision that saw no prioritized work
	if int(bodyStarts.Load()) != starts {
		return pbt.Violf("start-without-clear-decision", "%d bodies were started but only %d start decisions saw zero prioritized tasks", bodyStarts.Load(), starts)
	}
	ev.ClassIf(totalPrios > 0, "has-prioritized")
	ev.ClassIf(prioWhileBg.Load(), "prio-while-body-running")
	ev.ClassIf(lateCancel.Load(), "late-reaction")
	ev.ClassIf(int(maxRunning.Load()) == c.Concurrency, "bound-reached")
	ev.NTIf(prioWhileBg.Load() && lateCancel.Load())
	_ = fmt.Sprint
	return nil
}

func TestProp_Manager(t *testing.T) {
	pbt.Run(t, pbt.Options{Prop: "C13", Name: "Manager", Quick: 30000, Thorough: 240000, Timeout: 60 * time.Second,
		Rule: "rapid: manager(concurrency 1-3, silence 0-5ms) x 1-6 concurrently invoked tasks whose executions run 0-3ms, optionally until cancelled, and return 0-4ms late after cancellation x 0-3 goroutines doing 1-3 prioritized begin/end pairs with generated delays; " +
			"oracle over the run: bodies running <= concurrency, executions of one task never overlap, none running when the invocation returns, a body running at a prioritized begin gets cancelled, and (via trace points inside the manager's mutex) no start decision while a prioritized task is in progress or finished less than the silence period ago (lower bounds only); all invocations return (watchdog). " +
			"non-trivial = a prioritized begin arrived while a body was running and a cancelled body reacted late",
	}, gen, run)
}
