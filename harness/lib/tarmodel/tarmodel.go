// Package tarmodel generates tar archives over the entry mix the properties quantify over and
// computes, from the tar bytes alone (stdlib archive/tar is trusted), the reference
// filesystem tree a layer built from that tar must expose.
package tarmodel

import (
	"archive/tar"
	"bytes"
	"fmt"
	"io"
	"path"
	"sort"
	"strings"
	"time"

	"pgregory.net/rapid"
)

// Entry is one generated tar entry (plain JSON value).
type Entry struct {
	Name     string            `json:"name"`
	Type     string            `json:"type"` // reg dir symlink hardlink char block fifo
	Mode     int64             `json:"mode"` // tar mode: perm | 04000 | 02000 | 01000
	UID      int               `json:"uid,omitempty"`
	GID      int               `json:"gid,omitempty"`
	Uname    string            `json:"uname,omitempty"`
	Gname    string            `json:"gname,omitempty"`
	MTime    int64             `json:"mtime"`
	MTimeNs  int               `json:"mtime_ns,omitempty"`
	Size     int               `json:"size,omitempty"`
	Seed     uint32            `json:"seed,omitempty"`
	Link     string            `json:"link,omitempty"`
	DevMajor int64             `json:"devmajor,omitempty"`
	DevMinor int64             `json:"devminor,omitempty"`
	Xattrs   map[string][]byte `json:"xattrs,omitempty"`
}

// Archive is a generated archive.
type Archive struct {
	Entries []Entry `json:"entries"`
}

// Content returns the deterministic pseudo-random content of a regular file.
func Content(seed uint32, size int) []byte {
	b := make([]byte, size)
	x := seed*2654435761 + 12345
	for i := range b {
		x ^= x << 13
		x ^= x >> 17
		x ^= x << 5
		// limited alphabet + runs so that compression does something, still position dependent
		if x&7 == 0 {
			b[i] = 'A' + byte(i%23)
		} else {
			b[i] = 'a' + byte(x>>8)%16
		}
	}
	return b
}

var typeflags = map[string]byte{"reg": tar.TypeReg, "dir": tar.TypeDir, "symlink": tar.TypeSymlink, "hardlink": tar.TypeLink,
	"char": tar.TypeChar, "block": tar.TypeBlock, "fifo": tar.TypeFifo}

// Header converts an entry to a tar header.
func (e Entry) Header() *tar.Header {
	h := &tar.Header{
		Name: e.Name, Typeflag: typeflags[e.Type], Mode: e.Mode, Uid: e.UID, Gid: e.GID, Uname: e.Uname, Gname: e.Gname,
		ModTime: time.Unix(e.MTime, int64(e.MTimeNs)),
	}
	switch e.Type {
	case "reg":
		h.Size = int64(e.Size)
	case "symlink", "hardlink":
		h.Linkname = e.Link
	case "char", "block":
		h.Devmajor, h.Devminor = e.DevMajor, e.DevMinor
	}
	if len(e.Xattrs) > 0 {
		h.PAXRecords = map[string]string{}
		for k, v := range e.Xattrs {
			h.PAXRecords["SCHILY.xattr."+k] = string(v)
		}
	}
	if e.MTimeNs != 0 || len(e.Xattrs) > 0 {
		h.Format = tar.FormatPAX
	}
	return h
}

// Tar serialises the archive with the standard library.
func (a Archive) Tar() ([]byte, error) {
	var buf bytes.Buffer
	tw := tar.NewWriter(&buf)
	for _, e := range a.Entries {
		if err := tw.WriteHeader(e.Header()); err != nil {
			return nil, fmt.Errorf("tar header %q: %w", e.Name, err)
		}
		if e.Type == "reg" && e.Size > 0 {
			if _, err := tw.Write(Content(e.Seed, e.Size)); err != nil {
				return nil, err
			}
		}
	}
	if err := tw.Close(); err != nil {
		return nil, err
	}
	return buf.Bytes(), nil
}

// Clean is the name normalisation every consumer of a layer applies ("./a", "/a", "../a", "a/" are "a").
func Clean(name string) string {
	return strings.TrimPrefix(path.Clean("/"+name), "/")
}

// ---------------------------------------------------------------------------------------
// generator

// GenOpts steers the archive generator.
type GenOpts struct {
	MaxEntries   int
	ChunkSize    int  // file sizes are drawn around multiples of it
	Hardlinks    bool // hardlink chains
	Devices      bool // char / block / fifo
	Dups         bool // duplicate names (same kind class)
	ExtremeTimes bool // some mtimes lie outside what an int64 of nanoseconds can hold (year 1601, year 9999)
	ManyChunks   bool // some files have 9..20 chunks (chunk offsets on both sides of 64, 128, ...: varint key order != numeric order)
	DupLinks     bool // with Dups: a hardlink may replace an earlier non-directory of the same name (never a link target)
	Spellings    bool // "./", "/", "../" prefixes and trailing slashes
	Xattrs       bool
	RootEntry    bool // may contain an entry for the root itself ("./")
	Whiteouts    bool // OCI whiteouts and opaque markers (C07)
	BigIDs       bool
	MaxFile      int // cap on file size (0 = 3*ChunkSize+1)
}

var dirPool = []string{"a", "b", "a/c", "a/c/d", "b/e"}
var basePool = []string{"f1", "f2", "f3", "f4", "g", "h.txt"}

const longBase = "long-name-0123456789-0123456789-0123456789-0123456789-0123456789-0123456789-0123456789-0123456789-0123456789-x"
const utfBase = "ünï-cødé-名前"

func spell(t *rapid.T, clean string, isDir bool, o GenOpts) string {
	s := clean
	if o.Spellings {
		s = rapid.SampledFrom([]string{"", "", "", "./", "/", "../"}).Draw(t, "prefix") + clean
	}
	if isDir && rapid.Bool().Draw(t, "slash") {
		s += "/"
	}
	return s
}

// Gen draws an archive.
func Gen(t *rapid.T, o GenOpts) Archive {
	if o.MaxEntries == 0 {
		o.MaxEntries = 12
	}
	if o.ChunkSize == 0 {
		o.ChunkSize = 16
	}
	n := rapid.IntRange(1, o.MaxEntries).Draw(t, "entries")
	var a Archive
	usedDir := map[string]bool{}    // clean names used as explicit directory
	usedNonDir := map[string]bool{} // clean names used as non-directory
	frozen := map[string]bool{}     // names that must stay unique (hardlinks and their targets)
	keepDup := map[string]bool{}    // DupLinks: hardlink names whose earlier (never linked-to) occurrences stay in the archive
	var linkable []string           // clean names a hardlink may point to
	isAncestorDir := func(name string) bool {
		for _, d := range dirPool {
			if d == name || strings.HasPrefix(d, name+"/") {
				return true
			}
		}
		return false
	}
	if o.RootEntry && rapid.IntRange(0, 5).Draw(t, "root") == 0 {
		e := Entry{Name: rapid.SampledFrom([]string{"./", "/", "."}).Draw(t, "rootname"), Type: "dir", Mode: rapid.SampledFrom([]int64{0o755, 0o700, 0o1777}).Draw(t, "rootmode"), MTime: 1600000000}
		a.Entries = append(a.Entries, e)
	}
	for i := 0; i < n; i++ {
		kinds := []string{"reg", "reg", "reg", "reg", "dir", "dir", "symlink"}
		if o.Hardlinks && len(linkable) > 0 {
			kinds = append(kinds, "hardlink", "hardlink")
		}
		if o.Devices {
			kinds = append(kinds, "char", "block", "fifo")
		}
		if o.Whiteouts {
			kinds = append(kinds, "whiteout", "whiteout", "opaque")
		}
		kind := rapid.SampledFrom(kinds).Draw(t, "kind")
		e := Entry{Type: kind}
		// attributes
		e.Mode = rapid.SampledFrom([]int64{0o644, 0o755, 0o600, 0o4755, 0o2755, 0o1777, 0o000, 0o6711}).Draw(t, "mode")
		if o.BigIDs {
			e.UID = rapid.SampledFrom([]int{0, 0, 1000, 65534, 3000000, 2147483647}).Draw(t, "uid")
			e.GID = rapid.SampledFrom([]int{0, 0, 1000, 65534, 3000000, 2147483647}).Draw(t, "gid")
		} else {
			e.UID = rapid.SampledFrom([]int{0, 0, 1000, 65534}).Draw(t, "uid")
			e.GID = rapid.SampledFrom([]int{0, 0, 1000, 65534}).Draw(t, "gid")
		}
		if rapid.IntRange(0, 3).Draw(t, "names") == 0 {
			e.Uname = rapid.SampledFrom([]string{"root", "user", "nobody"}).Draw(t, "uname")
			e.Gname = rapid.SampledFrom([]string{"root", "staff"}).Draw(t, "gname")
		}
		e.MTime = rapid.SampledFrom([]int64{0, 1, 1600000000, 1600000000, 1700000001, 2147483653, 4102444800}).Draw(t, "mtime")
		if o.ExtremeTimes && rapid.IntRange(0, 7).Draw(t, "extremetime") == 0 {
			e.MTime = rapid.SampledFrom([]int64{-11644473600, 253402300799, -2208988800}).Draw(t, "xmtime")
		}
		if rapid.IntRange(0, 3).Draw(t, "subsec") == 0 {
			e.MTimeNs = rapid.SampledFrom([]int{400000000, 600000000, 1, 999999999, 500000000}).Draw(t, "ns")
		}
		if o.Xattrs && rapid.IntRange(0, 2).Draw(t, "hasx") == 0 {
			e.Xattrs = map[string][]byte{}
			nx := rapid.IntRange(1, 3).Draw(t, "nx")
			for j := 0; j < nx; j++ {
				k := rapid.SampledFrom([]string{"user.a", "user.b", "security.capability", "trusted.x", "user.long.key.name"}).Draw(t, "xk")
				v := rapid.SampledFrom([][]byte{[]byte("v"), {}, []byte("value with spaces"), {0, 1, 2, 0xff, 0}, []byte("y")}).Draw(t, "xv")
				e.Xattrs[k] = v
			}
		}
		// name
		switch kind {
		case "dir":
			name := rapid.SampledFrom(dirPool).Draw(t, "dir")
			if usedNonDir[name] || (usedDir[name] && (!o.Dups || frozen[name])) {
				continue
			}
			usedDir[name] = true
			e.Name = spell(t, name, true, o)
		case "whiteout", "opaque":
			dir := rapid.SampledFrom(append([]string{""}, dirPool...)).Draw(t, "whdir")
			base := ".wh..wh..opq"
			if kind == "whiteout" {
				base = ".wh." + rapid.SampledFrom(append(append([]string{}, basePool...), "a", "b", "c", "d", "e", "zz", ".wh.f1")).Draw(t, "whbase")
			}
			name := path.Join(dir, base)
			if usedNonDir[name] || usedDir[name] {
				continue
			}
			usedNonDir[name] = true
			frozen[name] = true
			e.Type = "reg"
			e.Size = 0
			e.Xattrs = nil
			e.Name = spell(t, name, false, o)
		default:
			dir := rapid.SampledFrom(append([]string{"", ""}, dirPool...)).Draw(t, "in")
			bases := basePool
			if rapid.IntRange(0, 9).Draw(t, "exotic") == 0 {
				bases = []string{longBase, utfBase}
			}
			base := rapid.SampledFrom(bases).Draw(t, "base")
			name := path.Join(dir, base)
			if usedDir[name] || isAncestorDir(name) {
				continue
			}
			if usedNonDir[name] && (!o.Dups || frozen[name] || (kind == "hardlink" && !o.DupLinks)) {
				continue
			}
			if kind == "hardlink" && usedNonDir[name] {
				keepDup[name] = true
			}
			usedNonDir[name] = true
			e.Name = spell(t, name, false, o)
			switch kind {
			case "reg":
				cs := o.ChunkSize
				mx := o.MaxFile
				if mx == 0 {
					mx = 3*cs + 1
				}
				sz := rapid.SampledFrom([]int{0, 1, cs - 1, cs, cs + 1, 2*cs - 1, 2 * cs, 2*cs + 1, 3 * cs, 3*cs + 1, cs / 2, 5}).Draw(t, "size")
				if sz < 0 {
					sz = 0
				}
				if sz > mx {
					sz = mx
				}
				if o.ManyChunks && rapid.IntRange(0, 5).Draw(t, "many") == 0 {
					sz = rapid.SampledFrom([]int{9*cs + 1, 12 * cs, 17*cs - 1, 20 * cs}).Draw(t, "manysize")
					if sz > 2000 {
						sz = 2000
					}
				}
				e.Size = sz
				e.Seed = rapid.Uint32Range(1, 1<<20).Draw(t, "seed")
				linkable = append(linkable, name)
			case "symlink":
				e.Link = rapid.SampledFrom([]string{"f1", "../f2", "/abs/target", "a/c", "dangling", longBase + "/" + longBase}).Draw(t, "target")
				e.Mode = 0o777
				if rapid.IntRange(0, 4).Draw(t, "linkable") == 0 {
					linkable = append(linkable, name)
				}
			case "hardlink":
				cands := linkable
				if keepDup[name] {
					cands = nil
					for _, l := range linkable {
						if l != name {
							cands = append(cands, l)
						}
					}
					if len(cands) == 0 {
						delete(keepDup, name)
						continue
					}
				}
				tgt := rapid.SampledFrom(cands).Draw(t, "hl")
				frozen[tgt] = true
				frozen[name] = true
				e.Link = spell(t, tgt, false, o)
				linkable = append(linkable, name) // link to link
				e.Xattrs = nil
			case "char", "block":
				e.DevMajor = rapid.SampledFrom([]int64{0, 1, 8, 255, 256, 4095}).Draw(t, "maj")
				e.DevMinor = rapid.SampledFrom([]int64{0, 1, 255, 256, 65535, 1048575}).Draw(t, "min")
				if kind == "char" && e.DevMajor == 0 && e.DevMinor == 0 {
					e.DevMinor = 1 // 0/0 char devices are overlayfs whiteouts; not part of this generator
				}
			}
		}
		a.Entries = append(a.Entries, e)
	}
	// a frozen name that got duplicated before it was frozen: drop earlier duplicates
	seen := map[string]int{}
	for _, e := range a.Entries {
		seen[Clean(e.Name)]++
	}
	var out []Entry
	for _, e := range a.Entries {
		c := Clean(e.Name)
		if frozen[c] && seen[c] > 1 && !keepDup[c] {
			seen[c]--
			continue
		}
		out = append(out, e)
	}
	a.Entries = out
	return a
}

// ---------------------------------------------------------------------------------------
// reference tree

// Node is a node of the reference filesystem.
type Node struct {
	Path     string // clean path ("" = root)
	Hdr      *tar.Header
	Content  []byte
	Implicit bool // directory that exists only because something lives below it
	Children map[string]*Node
	// for non-directories
	NLink    int
	InodeKey string // clean path of the entry that owns the inode (hardlink target)
}

// IsDir reports whether the node is a directory.
func (n *Node) IsDir() bool { return n.Hdr == nil || n.Hdr.Typeflag == tar.TypeDir }

// RawEntry is what the standard library reads from the tar.
type RawEntry struct {
	Hdr     *tar.Header
	Content []byte
	Clean   string
}

// ReadTar lists the entries of a tar with the standard library.
func ReadTar(b []byte) ([]RawEntry, error) {
	tr := tar.NewReader(bytes.NewReader(b))
	var out []RawEntry
	for {
		h, err := tr.Next()
		if err == io.EOF {
			return out, nil
		}
		if err != nil {
			return out, err
		}
		c, err := io.ReadAll(tr)
		if err != nil {
			return out, err
		}
		out = append(out, RawEntry{Hdr: h, Content: c, Clean: Clean(h.Name)})
	}
}

// Dedup applies "the last entry of a (clean) name wins and takes the last position" and drops
// the names in reserved.
func Dedup(ents []RawEntry, reserved map[string]bool) []RawEntry {
	last := map[string]int{}
	for i, e := range ents {
		last[e.Clean] = i
	}
	var out []RawEntry
	for i, e := range ents {
		if reserved[e.Clean] || last[e.Clean] != i {
			continue
		}
		out = append(out, e)
	}
	return out
}

// Tree builds the reference tree from de-duplicated entries.
func Tree(ents []RawEntry) (*Node, error) {
	root := &Node{Path: "", Implicit: true, Children: map[string]*Node{}}
	byPath := map[string]*Node{"": root}
	var mkdir func(p string) *Node
	mkdir = func(p string) *Node {
		if n, ok := byPath[p]; ok {
			return n
		}
		n := &Node{Path: p, Implicit: true, Children: map[string]*Node{}}
		byPath[p] = n
		parent := mkdir(parentOf(p))
		parent.Children[path.Base(p)] = n
		return n
	}
	// first pass: everything except hardlinks
	rawByPath := map[string]RawEntry{}
	for _, e := range ents {
		rawByPath[e.Clean] = e
	}
	for _, e := range ents {
		if e.Hdr.Typeflag == tar.TypeLink {
			continue
		}
		if e.Clean == "" {
			if e.Hdr.Typeflag == tar.TypeDir {
				root.Hdr = e.Hdr
				root.Implicit = false
			}
			continue
		}
		if e.Hdr.Typeflag == tar.TypeDir {
			n := mkdir(e.Clean)
			n.Hdr = e.Hdr
			n.Implicit = false
			continue
		}
		n := &Node{Path: e.Clean, Hdr: e.Hdr, Content: e.Content, NLink: 1, InodeKey: e.Clean}
		if _, dup := byPath[e.Clean]; dup {
			return nil, fmt.Errorf("model: %q is both a directory and a file", e.Clean)
		}
		byPath[e.Clean] = n
		mkdir(parentOf(e.Clean)).Children[path.Base(e.Clean)] = n
	}
	// hardlinks: resolve chains
	var resolve func(name string, depth int) (*Node, error)
	resolve = func(name string, depth int) (*Node, error) {
		if depth > 64 {
			return nil, fmt.Errorf("model: hardlink cycle at %q", name)
		}
		if n, ok := byPath[name]; ok && !n.IsDir() {
			return n, nil
		}
		r, ok := rawByPath[name]
		if !ok || r.Hdr.Typeflag != tar.TypeLink {
			return nil, fmt.Errorf("model: hardlink target %q not found", name)
		}
		return resolve(Clean(r.Hdr.Linkname), depth+1)
	}
	for _, e := range ents {
		if e.Hdr.Typeflag != tar.TypeLink {
			continue
		}
		tgt, err := resolve(Clean(e.Hdr.Linkname), 0)
		if err != nil {
			return nil, err
		}
		tgt.NLink++
		mkdir(parentOf(e.Clean)).Children[path.Base(e.Clean)] = tgt
	}
	return root, nil
}

func parentOf(p string) string {
	d, _ := path.Split(p)
	return strings.TrimSuffix(d, "/")
}

// Walk visits every (path, node) pair in sorted order; hardlinked nodes are visited under every name.
func Walk(root *Node, f func(p string, n *Node)) {
	var rec func(p string, n *Node)
	rec = func(p string, n *Node) {
		f(p, n)
		if n.Children == nil {
			return
		}
		names := make([]string, 0, len(n.Children))
		for k := range n.Children {
			names = append(names, k)
		}
		sort.Strings(names)
		for _, k := range names {
			rec(path.Join(p, k), n.Children[k])
		}
	}
	rec("", root)
}

// Lookup finds a node by clean path.
func Lookup(root *Node, p string) *Node {
	n := root
	if p == "" {
		return n
	}
	for _, part := range strings.Split(p, "/") {
		if n.Children == nil {
			return nil
		}
		c, ok := n.Children[part]
		if !ok {
			return nil
		}
		n = c
	}
	return n
}
