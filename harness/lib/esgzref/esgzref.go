// Package esgzref is an independent reader (and container writer) of the eStargz,
// zstd:chunked and external-TOC formats, written from docs/estargz.md.  It shares no code
// with the repository's estargz package: only the Go standard library and
// klauspost/compress/zstd are used.
package esgzref

import (
	"archive/tar"
	"bytes"
	"compress/gzip"
	"crypto/sha256"
	"encoding/binary"
	"encoding/hex"
	"encoding/json"
	"fmt"
	"io"
	"strconv"
	"strings"

	"github.com/klauspost/compress/zstd"
)

// Entry mirrors one TOC entry as documented.
type Entry struct {
	Name        string            `json:"name"`
	Type        string            `json:"type"`
	Size        int64             `json:"size,omitempty"`
	ModTime     string            `json:"modtime,omitempty"`
	LinkName    string            `json:"linkName,omitempty"`
	Mode        int64             `json:"mode,omitempty"`
	UID         int               `json:"uid,omitempty"`
	GID         int               `json:"gid,omitempty"`
	Uname       string            `json:"userName,omitempty"`
	Gname       string            `json:"groupName,omitempty"`
	Offset      int64             `json:"offset,omitempty"`
	DevMajor    int               `json:"devMajor,omitempty"`
	DevMinor    int               `json:"devMinor,omitempty"`
	NumLink     int               `json:"-"`
	Xattrs      map[string][]byte `json:"xattrs,omitempty"`
	Digest      string            `json:"digest,omitempty"`
	ChunkOffset int64             `json:"chunkOffset,omitempty"`
	ChunkSize   int64             `json:"chunkSize,omitempty"`
	ChunkDigest string            `json:"chunkDigest,omitempty"`
	InnerOffset int64             `json:"innerOffset,omitempty"`
}

// TOC is the table of contents.
type TOC struct {
	Version int      `json:"version"`
	Entries []*Entry `json:"entries"`
}

// Parsed is a parsed blob.
type Parsed struct {
	Kind      string // gzip | zstd | external
	Blob      []byte
	TOCJSON   []byte
	TOCOffset int64 // offset of the TOC member / skippable frame payload; -1 for external
	TOC       TOC
}

const (
	GzipFooterSize     = 51
	ZstdFooterSize     = 40
	ExternalFooterSize = 46
)

// TOCDigest is sha256 of the TOC JSON bytes.
func (p *Parsed) TOCDigest() string {
	h := sha256.Sum256(p.TOCJSON)
	return "sha256:" + hex.EncodeToString(h[:])
}

// DetectKind looks at the footer bytes.
func DetectKind(blob []byte) string {
	n := len(blob)
	if n >= ZstdFooterSize && bytes.Equal(blob[n-8:], []byte{0x47, 0x6e, 0x55, 0x6c, 0x49, 0x6e, 0x55, 0x78}) {
		return "zstd"
	}
	if n >= ExternalFooterSize && bytes.Contains(blob[n-ExternalFooterSize:], []byte("STARGZEXTERNALTOC")) {
		return "external"
	}
	if n >= GzipFooterSize && bytes.Contains(blob[n-GzipFooterSize:], []byte("STARGZ")) {
		return "gzip"
	}
	return ""
}

// Parse parses a blob by the documented rules.  externalTOC is the gzip(tar(stargz.index.json))
// blob for the external-TOC format.
func Parse(blob []byte, externalTOC []byte) (*Parsed, error) {
	p := &Parsed{Blob: blob, Kind: DetectKind(blob)}
	n := int64(len(blob))
	switch p.Kind {
	case "gzip":
		f := blob[n-GzipFooterSize:]
		// 10 bytes gzip header, 2 bytes XLEN, 'S','G', 2 bytes LEN, 16 hex digits, "STARGZ"
		if f[0] != 0x1f || f[1] != 0x8b || f[3]&4 == 0 {
			return nil, fmt.Errorf("ref: footer is not a gzip header with FEXTRA")
		}
		if binary.LittleEndian.Uint16(f[10:12]) != 26 || f[12] != 'S' || f[13] != 'G' || binary.LittleEndian.Uint16(f[14:16]) != 22 {
			return nil, fmt.Errorf("ref: footer extra field malformed")
		}
		if string(f[32:38]) != "STARGZ" {
			return nil, fmt.Errorf("ref: STARGZ magic missing")
		}
		off, err := strconv.ParseInt(string(f[16:32]), 16, 64)
		if err != nil {
			return nil, fmt.Errorf("ref: toc offset: %v", err)
		}
		if off < 0 || off > n-GzipFooterSize {
			return nil, fmt.Errorf("ref: toc offset %d out of range", off)
		}
		p.TOCOffset = off
		js, err := tocFromGzipTar(blob[off : n-GzipFooterSize])
		if err != nil {
			return nil, err
		}
		p.TOCJSON = js
	case "external":
		p.TOCOffset = -1
		js, err := tocFromGzipTar(externalTOC)
		if err != nil {
			return nil, err
		}
		p.TOCJSON = js
	case "zstd":
		f := blob[n-ZstdFooterSize:]
		off := int64(binary.LittleEndian.Uint64(f[0:8]))
		clen := int64(binary.LittleEndian.Uint64(f[8:16]))
		ulen := int64(binary.LittleEndian.Uint64(f[16:24]))
		if off < 0 || clen < 0 || off+clen > n {
			return nil, fmt.Errorf("ref: zstd footer out of range")
		}
		p.TOCOffset = off
		dec, err := zstd.NewReader(bytes.NewReader(blob[off : off+clen]))
		if err != nil {
			return nil, err
		}
		js, err := io.ReadAll(dec)
		dec.Close()
		if err != nil {
			return nil, fmt.Errorf("ref: toc zstd: %v", err)
		}
		if int64(len(js)) != ulen {
			return nil, fmt.Errorf("ref: zstd footer says TOC is %d bytes, got %d", ulen, len(js))
		}
		p.TOCJSON = js
	default:
		return nil, fmt.Errorf("ref: no known footer")
	}
	if err := json.Unmarshal(p.TOCJSON, &p.TOC); err != nil {
		return nil, fmt.Errorf("ref: toc json: %v", err)
	}
	return p, nil
}

func tocFromGzipTar(b []byte) ([]byte, error) {
	zr, err := gzip.NewReader(bytes.NewReader(b))
	if err != nil {
		return nil, fmt.Errorf("ref: toc gzip: %v", err)
	}
	zr.Multistream(false)
	tr := tar.NewReader(zr)
	h, err := tr.Next()
	if err != nil {
		return nil, fmt.Errorf("ref: toc tar: %v", err)
	}
	if h.Name != "stargz.index.json" {
		return nil, fmt.Errorf("ref: toc tar entry is %q", h.Name)
	}
	return io.ReadAll(tr)
}

// memberReader returns a reader of the decompressed stream that starts at off.
func (p *Parsed) memberReader(off int64) (io.ReadCloser, error) {
	if off < 0 || off > int64(len(p.Blob)) {
		return nil, fmt.Errorf("ref: offset %d out of range", off)
	}
	if p.Kind == "zstd" {
		d, err := zstd.NewReader(bytes.NewReader(p.Blob[off:]))
		if err != nil {
			return nil, err
		}
		return d.IOReadCloser(), nil
	}
	return gzip.NewReader(bytes.NewReader(p.Blob[off:]))
}

// File is the content of a regular file reassembled chunk by chunk.
type File struct {
	Entry   *Entry
	Chunks  []*Entry
	Content []byte
}

// Files reassembles every regular file, verifying every chunk digest and the file digest.
func (p *Parsed) Files() (map[string]*File, error) {
	out := map[string]*File{}
	var cur *File
	for _, e := range p.TOC.Entries {
		switch e.Type {
		case "reg":
			cur = &File{Entry: e}
			out[e.Name] = cur
			if e.Size > 0 {
				cur.Chunks = append(cur.Chunks, e)
			}
		case "chunk":
			if cur == nil {
				return nil, fmt.Errorf("ref: chunk before any reg entry")
			}
			cur.Chunks = append(cur.Chunks, e)
		default:
			cur = nil
		}
	}
	for name, f := range out {
		var pos int64
		for i, c := range f.Chunks {
			if c.ChunkOffset != pos {
				return nil, fmt.Errorf("ref: %q chunk %d starts at %d, expected %d (gap or overlap)", name, i, c.ChunkOffset, pos)
			}
			size := c.ChunkSize
			if size == 0 {
				size = f.Entry.Size - c.ChunkOffset
			}
			if size <= 0 || pos+size > f.Entry.Size {
				return nil, fmt.Errorf("ref: %q chunk %d has size %d at %d, file size %d", name, i, size, pos, f.Entry.Size)
			}
			rc, err := p.memberReader(c.Offset)
			if err != nil {
				return nil, fmt.Errorf("ref: %q chunk %d: %v", name, i, err)
			}
			if _, err := io.CopyN(io.Discard, rc, c.InnerOffset); err != nil {
				rc.Close()
				return nil, fmt.Errorf("ref: %q chunk %d: skipping innerOffset %d: %v", name, i, c.InnerOffset, err)
			}
			buf := make([]byte, size)
			_, err = io.ReadFull(rc, buf)
			rc.Close()
			if err != nil {
				return nil, fmt.Errorf("ref: %q chunk %d: reading %d bytes: %v", name, i, size, err)
			}
			h := sha256.Sum256(buf)
			if got := "sha256:" + hex.EncodeToString(h[:]); got != c.ChunkDigest {
				return nil, fmt.Errorf("ref: %q chunk %d: chunkDigest %s, data hashes to %s", name, i, c.ChunkDigest, got)
			}
			f.Content = append(f.Content, buf...)
			pos += size
		}
		if pos != f.Entry.Size {
			return nil, fmt.Errorf("ref: %q chunks cover %d of %d bytes", name, pos, f.Entry.Size)
		}
		h := sha256.Sum256(f.Content)
		if got := "sha256:" + hex.EncodeToString(h[:]); f.Entry.Digest != got {
			return nil, fmt.Errorf("ref: %q digest %s, content hashes to %s", name, f.Entry.Digest, got)
		}
	}
	return out, nil
}

// DecompressAll decompresses the whole blob as an eStargz-agnostic runtime would.
func DecompressAll(blob []byte, kind string) ([]byte, error) {
	if kind == "zstd" {
		d, err := zstd.NewReader(bytes.NewReader(blob))
		if err != nil {
			return nil, err
		}
		defer d.Close()
		return io.ReadAll(d)
	}
	zr, err := gzip.NewReader(bytes.NewReader(blob))
	if err != nil {
		return nil, err
	}
	return io.ReadAll(zr) // multistream by default
}

// ---------------------------------------------------------------------------------------
// container writer (for third-party / hostile TOCs)

// GzipMember compresses b as one gzip member.
func GzipMember(b []byte) []byte {
	var buf bytes.Buffer
	zw, _ := gzip.NewWriterLevel(&buf, gzip.BestSpeed)
	zw.Write(b)
	zw.Close()
	return buf.Bytes()
}

// GzipMemberSized returns a valid gzip member of exactly size bytes that decompresses to b (the compression
// level is searched and the header padded with a file name), or false if none was found.
func GzipMemberSized(b []byte, size int) ([]byte, bool) {
	for _, lv := range []int{gzip.BestCompression, gzip.DefaultCompression, 6, 5, 4, 3, 2, gzip.BestSpeed, gzip.HuffmanOnly, gzip.NoCompression} {
		var buf bytes.Buffer
		zw, _ := gzip.NewWriterLevel(&buf, lv)
		zw.Write(b)
		zw.Close()
		d := size - buf.Len()
		if d == 0 {
			return buf.Bytes(), true
		}
		if d < 2 {
			continue
		}
		buf.Reset()
		zw, _ = gzip.NewWriterLevel(&buf, lv)
		zw.Name = strings.Repeat("p", d-1) // FNAME: d-1 bytes + NUL
		zw.Write(b)
		zw.Close()
		if buf.Len() == size {
			return buf.Bytes(), true
		}
	}
	return nil, false
}

// ZstdFrameSized returns a zstd frame followed by a skippable frame, together exactly size bytes, that
// decompress to b, or false.
func ZstdFrameSized(b []byte, size int) ([]byte, bool) {
	for _, lv := range []zstd.EncoderLevel{zstd.SpeedBestCompression, zstd.SpeedBetterCompression, zstd.SpeedDefault, zstd.SpeedFastest} {
		var buf bytes.Buffer
		zw, _ := zstd.NewWriter(&buf, zstd.WithEncoderLevel(lv))
		zw.Write(b)
		zw.Close()
		d := size - buf.Len()
		if d == 0 {
			return buf.Bytes(), true
		}
		if d < 8 {
			continue
		}
		out := append([]byte(nil), buf.Bytes()...)
		out = append(out, 0x50, 0x2a, 0x4d, 0x18, byte(d-8), byte((d-8)>>8), byte((d-8)>>16), byte((d-8)>>24))
		out = append(out, make([]byte, d-8)...)
		return out, true
	}
	return nil, false
}

// ZstdFrame compresses b as one zstd frame.
func ZstdFrame(b []byte) []byte {
	var buf bytes.Buffer
	zw, _ := zstd.NewWriter(&buf, zstd.WithEncoderLevel(zstd.SpeedFastest))
	zw.Write(b)
	zw.Close()
	return buf.Bytes()
}

// GzipFooter builds the 51-byte footer for tocOff.
func GzipFooter(tocOff int64) []byte {
	return RawGzipFooter([]byte(fmt.Sprintf("%016xSTARGZ", tocOff)))
}

// RawGzipFooter builds an empty gzip member whose extra field is 'S','G',len(sub),sub.
func RawGzipFooter(sub []byte) []byte {
	extra := []byte{'S', 'G', byte(len(sub)), byte(len(sub) >> 8)}
	extra = append(extra, sub...)
	b := []byte{0x1f, 0x8b, 8, 4, 0, 0, 0, 0, 0, 255, byte(len(extra)), byte(len(extra) >> 8)}
	b = append(b, extra...)
	b = append(b, 1, 0, 0, 0xff, 0xff)
	b = append(b, make([]byte, 8)...)
	return b
}

// TOCTarGz wraps TOC JSON as gzip(tar("stargz.index.json")).
func TOCTarGz(tocJSON []byte, trailer []byte) []byte {
	var tb bytes.Buffer
	tw := tar.NewWriter(&tb)
	tw.WriteHeader(&tar.Header{Typeflag: tar.TypeReg, Name: "stargz.index.json", Size: int64(len(tocJSON) + len(trailer))})
	tw.Write(tocJSON)
	tw.Write(trailer)
	tw.Close()
	return GzipMember(tb.Bytes())
}

// Wrap places payload (already compressed members) and the TOC into a container of the given kind.
// trailer is appended to the TOC JSON inside the TOC file (e.g. whitespace).
func Wrap(kind string, payload []byte, tocJSON []byte, trailer []byte) (blob []byte, externalTOC []byte) {
	switch kind {
	case "gzip":
		blob = append(blob, payload...)
		off := int64(len(blob))
		blob = append(blob, TOCTarGz(tocJSON, trailer)...)
		blob = append(blob, GzipFooter(off)...)
	case "external":
		blob = append(blob, payload...)
		blob = append(blob, RawGzipFooter([]byte("STARGZEXTERNALTOC"))...)
		externalTOC = TOCTarGz(tocJSON, trailer)
	case "zstd":
		blob = append(blob, payload...)
		full := append(append([]byte{}, tocJSON...), trailer...)
		ctoc := ZstdFrame(full)
		skip := func(b []byte) []byte {
			h := []byte{0x50, 0x2a, 0x4d, 0x18, 0, 0, 0, 0}
			binary.LittleEndian.PutUint32(h[4:], uint32(len(b)))
			return append(h, b...)
		}
		off := uint64(len(blob)) + 8
		blob = append(blob, skip(ctoc)...)
		f := make([]byte, 40)
		binary.LittleEndian.PutUint64(f[0:], off)
		binary.LittleEndian.PutUint64(f[8:], uint64(len(ctoc)))
		binary.LittleEndian.PutUint64(f[16:], uint64(len(full)))
		binary.LittleEndian.PutUint64(f[24:], 1)
		copy(f[32:], []byte{0x47, 0x6e, 0x55, 0x6c, 0x49, 0x6e, 0x55, 0x78})
		blob = append(blob, skip(f)...)
	}
	return
}

// Sha256 returns "sha256:<hex>".
func Sha256(b []byte) string {
	h := sha256.Sum256(b)
	return "sha256:" + hex.EncodeToString(h[:])
}

// ---------------------------------------------------------------------------------------
// independent layout writer: a spec-conforming blob that this repository's builder would
// never emit (used for third-party TOCs).

// LayoutFile is one tar entry to lay out.
type LayoutFile struct {
	Hdr     *tar.Header
	Content []byte
}

// LayoutOpts controls the layout.
type LayoutOpts struct {
	Kind      string // gzip | zstd | external
	ChunkSize int
	// ShareStreams keeps consecutive small files (and their chunks) in one compression stream, addressing
	// them by innerOffset, until the stream holds at least this many compressed-input bytes (0 = never share).
	ShareStreams int
}

type memberSink struct {
	kind    string
	cur     bytes.Buffer
	blob    []byte
	curOff  int64 // offset of the member being filled
	written int64 // uncompressed bytes written into the current member
}

func (s *memberSink) Write(p []byte) (int, error) {
	s.cur.Write(p)
	s.written += int64(len(p))
	return len(p), nil
}

// cut closes the current member (if it has data) and starts a new one; returns the offset of the new member.
func (s *memberSink) cut() int64 {
	if s.cur.Len() > 0 {
		if s.kind == "zstd" {
			s.blob = append(s.blob, ZstdFrame(s.cur.Bytes())...)
		} else {
			s.blob = append(s.blob, GzipMember(s.cur.Bytes())...)
		}
		s.cur.Reset()
	}
	s.curOff = int64(len(s.blob))
	s.written = 0
	return s.curOff
}

// Layout writes the tar stream member by member and returns the payload (without TOC/footer) and the
// chunk-level TOC entries (reg/chunk entries carry offset, innerOffset, chunkOffset, chunkSize, digests;
// all other fields are filled from the header).  The caller may rewrite names / drop entries before wrapping.
func Layout(files []LayoutFile, o LayoutOpts) (payload []byte, entries []*Entry, err error) {
	if o.ChunkSize <= 0 {
		o.ChunkSize = 4 << 20
	}
	sink := &memberSink{kind: o.Kind}
	tw := tar.NewWriter(sink)
	for _, f := range files {
		h := *f.Hdr
		if err := tw.WriteHeader(&h); err != nil {
			return nil, nil, err
		}
		e := &Entry{Name: h.Name, Mode: h.Mode, UID: h.Uid, GID: h.Gid, Uname: h.Uname, Gname: h.Gname}
		if !h.ModTime.IsZero() && h.ModTime.Unix() != 0 {
			e.ModTime = h.ModTime.UTC().Round(1e9).Format("2006-01-02T15:04:05Z07:00")
		}
		for k, v := range h.PAXRecords {
			if len(k) > 13 && k[:13] == "SCHILY.xattr." {
				if e.Xattrs == nil {
					e.Xattrs = map[string][]byte{}
				}
				e.Xattrs[k[13:]] = []byte(v)
			}
		}
		switch h.Typeflag {
		case tar.TypeDir:
			e.Type = "dir"
		case tar.TypeSymlink:
			e.Type, e.LinkName = "symlink", h.Linkname
		case tar.TypeLink:
			e.Type, e.LinkName = "hardlink", h.Linkname
		case tar.TypeChar:
			e.Type, e.DevMajor, e.DevMinor = "char", int(h.Devmajor), int(h.Devminor)
		case tar.TypeBlock:
			e.Type, e.DevMajor, e.DevMinor = "block", int(h.Devmajor), int(h.Devminor)
		case tar.TypeFifo:
			e.Type = "fifo"
		case tar.TypeReg:
			e.Type, e.Size = "reg", h.Size
			e.Digest = Sha256(f.Content)
		default:
			return nil, nil, fmt.Errorf("layout: unsupported type %q", h.Typeflag)
		}
		entries = append(entries, e)
		if h.Typeflag != tar.TypeReg || h.Size == 0 {
			continue
		}
		cur := e
		for off := 0; off < len(f.Content); off += o.ChunkSize {
			end := off + o.ChunkSize
			if end > len(f.Content) {
				end = len(f.Content)
			}
			if off > 0 {
				cur = &Entry{Name: h.Name, Type: "chunk"}
				entries = append(entries, cur)
			}
			if o.ShareStreams > 0 && sink.written > 0 && sink.written < int64(o.ShareStreams) {
				cur.Offset = sink.curOff
				cur.InnerOffset = sink.written
			} else {
				cur.Offset = sink.cut()
			}
			cur.ChunkOffset = int64(off)
			if end < len(f.Content) || off > 0 {
				cur.ChunkSize = int64(end - off)
			}
			if end == len(f.Content) && off > 0 {
				cur.ChunkSize = 0 // last chunk: size implied
			}
			cur.ChunkDigest = Sha256(f.Content[off:end])
			if _, err := tw.Write(f.Content[off:end]); err != nil {
				return nil, nil, err
			}
		}
		if err := tw.Flush(); err != nil {
			return nil, nil, err
		}
	}
	if err := tw.Close(); err != nil {
		return nil, nil, err
	}
	sink.cut()
	return sink.blob, entries, nil
}
