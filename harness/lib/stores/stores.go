// Package stores opens the two metadata stores the way the daemon configures them and walks
// a metadata.Reader completely.
package stores

import (
	"bytes"
	"fmt"
	"io"
	"os"
	"path/filepath"
	"sort"
	"sync"

	dbmetadata "github.com/containerd/stargz-snapshotter/cmd/containerd-stargz-grpc/db"
	"github.com/containerd/stargz-snapshotter/estargz/externaltoc"
	"github.com/containerd/stargz-snapshotter/estargz/zstdchunked"
	"github.com/containerd/stargz-snapshotter/metadata"
	memorymetadata "github.com/containerd/stargz-snapshotter/metadata/memory"
	bolt "go.etcd.io/bbolt"
)

var (
	dbOnce sync.Once
	dbInst *bolt.DB
	dbErr  error
)

// NewDB opens a fresh bolt DB file with the daemon's options (durability off: NoSync).
func NewDB(path string) (*bolt.DB, error) {
	db, err := bolt.Open(path, 0600, &bolt.Options{NoFreelistSync: true, FreelistType: bolt.FreelistMapType, NoSync: true})
	if err != nil {
		return nil, err
	}
	db.MaxBatchDelay = 0
	return db, nil
}

// SharedDB returns one bolt DB per process.
func SharedDB() (*bolt.DB, error) {
	dbOnce.Do(func() {
		d, err := os.MkdirTemp("", "verif-bolt")
		if err != nil {
			dbErr = err
			return
		}
		dbInst, dbErr = NewDB(filepath.Join(d, "metadata.db"))
	})
	return dbInst, dbErr
}

// Decompressors returns the additional decompressors the layer resolver configures:
// zstd:chunked plus the external-TOC decompressor with the given TOC provider.
func Decompressors(externalTOC []byte) []metadata.Decompressor {
	return []metadata.Decompressor{
		new(zstdchunked.Decompressor),
		externaltoc.NewGzipDecompressor(func() ([]byte, error) {
			if externalTOC == nil {
				return nil, fmt.Errorf("no external TOC")
			}
			return externalTOC, nil
		}),
	}
}

// Store returns the metadata.Store of the given kind ("memory" | "db").
func Store(kind string) (metadata.Store, error) {
	if kind == "db" {
		db, err := SharedDB()
		if err != nil {
			return nil, err
		}
		return func(sr *io.SectionReader, opts ...metadata.Option) (metadata.Reader, error) {
			return dbmetadata.NewReader(db, sr, opts...)
		}, nil
	}
	return memorymetadata.NewReader, nil
}

// Open opens blob with the given store.
func Open(kind string, blob []byte, externalTOC []byte) (metadata.Reader, error) {
	st, err := Store(kind)
	if err != nil {
		return nil, err
	}
	sr := io.NewSectionReader(bytes.NewReader(blob), 0, int64(len(blob)))
	return st(sr, metadata.WithDecompressors(Decompressors(externalTOC)...))
}

// NodeInfo is what a walk records per visited name.
type NodeInfo struct {
	Path string
	ID   uint32
	Attr metadata.Attr
	Mode os.FileMode // mode reported by ForeachChild
}

// WalkLimits bounds a walk (harness-side: hostile TOCs can describe endless trees).
type WalkLimits struct {
	MaxDepth int
	MaxNodes int
}

// Walk visits the whole tree synchronously in sorted order.
func Walk(r metadata.Reader, lim WalkLimits, visit func(NodeInfo) error) (nodes int, truncated bool, err error) {
	if lim.MaxDepth == 0 {
		lim.MaxDepth = 64
	}
	if lim.MaxNodes == 0 {
		lim.MaxNodes = 20000
	}
	root := r.RootID()
	ra, err := r.GetAttr(root)
	if err != nil {
		return 0, false, fmt.Errorf("GetAttr(root): %w", err)
	}
	var rec func(id uint32, p string, depth int) error
	rec = func(id uint32, p string, depth int) error {
		if depth > lim.MaxDepth || nodes > lim.MaxNodes {
			truncated = true
			return nil
		}
		type ch struct {
			name string
			id   uint32
			mode os.FileMode
		}
		var chs []ch
		if err := r.ForeachChild(id, func(name string, cid uint32, mode os.FileMode) bool {
			chs = append(chs, ch{name, cid, mode})
			return len(chs) <= lim.MaxNodes
		}); err != nil {
			return fmt.Errorf("ForeachChild(%q): %w", p, err)
		}
		sort.Slice(chs, func(i, j int) bool { return chs[i].name < chs[j].name })
		for _, c := range chs {
			nodes++
			if nodes > lim.MaxNodes {
				truncated = true
				return nil
			}
			cid, attr, err := r.GetChild(id, c.name)
			if err != nil {
				return fmt.Errorf("GetChild(%q,%q) for a listed name: %w", p, c.name, err)
			}
			if cid != c.id {
				return fmt.Errorf("GetChild(%q,%q) id %d, listing says %d", p, c.name, cid, c.id)
			}
			cp := c.name
			if p != "" {
				cp = p + "/" + c.name
			}
			if err := visit(NodeInfo{Path: cp, ID: cid, Attr: attr, Mode: c.mode}); err != nil {
				return err
			}
			if attr.Mode.IsDir() {
				if err := rec(cid, cp, depth+1); err != nil {
					return err
				}
			}
		}
		return nil
	}
	if err := visit(NodeInfo{Path: "", ID: root, Attr: ra, Mode: ra.Mode}); err != nil {
		return nodes, truncated, err
	}
	err = rec(root, "", 0)
	return nodes, truncated, err
}

// DBStore returns a metadata.Store over the given bolt DB.
func DBStore(db *bolt.DB) metadata.Store {
	return func(sr *io.SectionReader, opts ...metadata.Option) (metadata.Reader, error) {
		return dbmetadata.NewReader(db, sr, opts...)
	}
}
