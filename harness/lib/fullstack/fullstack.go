// Package fullstack composes the real mount path kernel-free: layer.Resolver (remote blob over
// the in-memory registry, both chunk caches, either metadata store, verification) -> Layer ->
// RootNode -> go-fuse nodes.  Only public API of the repository is used.
package fullstack

import (
	"context"
	"fmt"
	"io"
	"os"
	"path/filepath"
	"sync"
	"sync/atomic"
	"time"

	"github.com/containerd/containerd/v2/pkg/reference"
	"github.com/containerd/stargz-snapshotter/estargz/externaltoc"
	"github.com/containerd/stargz-snapshotter/fs/config"
	"github.com/containerd/stargz-snapshotter/fs/layer"
	"github.com/containerd/stargz-snapshotter/fs/source"
	"github.com/containerd/stargz-snapshotter/metadata"
	"github.com/containerd/stargz-snapshotter/task"
	digest "github.com/opencontainers/go-digest"
	ocispec "github.com/opencontainers/image-spec/specs-go/v1"
	bolt "go.etcd.io/bbolt"
	"pgregory.net/rapid"
	"verifharness/lib/memreg"
	"verifharness/lib/stores"
)

// Config is the plain-value configuration of a stack.
type Config struct {
	Store        string `json:"store"`      // memory | db
	FSCache      string `json:"fs_cache"`   // memory | directory
	HTTPCache    string `json:"http_cache"` // memory | directory
	LRUEntries   int    `json:"lru_entries,omitempty"`
	MaxFds       int    `json:"max_fds,omitempty"`
	Direct       bool   `json:"direct,omitempty"`
	SyncAdd      bool   `json:"sync_add,omitempty"`
	ValidSec     int64  `json:"valid_interval_sec,omitempty"` // blob connectivity-check interval (0 = 3600: checks never reach the registry)
	RegChunk     int64  `json:"registry_chunk,omitempty"`     // BlobConfig.ChunkSize (0 = default 50000)
	PrefetchChnk int64  `json:"prefetch_chunk,omitempty"`
	PassThrough  bool   `json:"passthrough,omitempty"`
	MergeBuf     int64  `json:"merge_buf,omitempty"`
	MergeWorkers int    `json:"merge_workers,omitempty"`
	Opaque       string `json:"opaque,omitempty"` // trusted | user | all
	TTLSec       int    `json:"ttl_sec,omitempty"`
	PrefetchTO   int64  `json:"prefetch_timeout_sec,omitempty"`
	AsyncSize    int64  `json:"prefetch_async_size,omitempty"`
	SilenceMs    int    `json:"silence_ms,omitempty"`
	FetchTO      int64  `json:"fetch_timeout_sec,omitempty"`
	BodyPiece    int    `json:"body_piece,omitempty"` // registry bodies deliver at most this many bytes per Read (0 = all at once)
}

// GenConfig draws a configuration.
func GenConfig(t *rapid.T) Config {
	c := Config{
		Store:     rapid.SampledFrom([]string{"memory", "db"}).Draw(t, "store"),
		FSCache:   rapid.SampledFrom([]string{"memory", "directory", "directory"}).Draw(t, "fscache"),
		HTTPCache: rapid.SampledFrom([]string{"memory", "directory"}).Draw(t, "httpcache"),
	}
	c.LRUEntries = rapid.IntRange(1, 3).Draw(t, "lru")
	c.MaxFds = rapid.IntRange(1, 3).Draw(t, "fds")
	c.Direct = rapid.Bool().Draw(t, "direct")
	c.SyncAdd = rapid.Bool().Draw(t, "syncadd")
	// tiny registry chunks are expensive (one cache file per chunk): low weight
	c.RegChunk = rapid.SampledFrom([]int64{0, 0, 4096, 512, 512, 100, 37}).Draw(t, "regchunk")
	c.PrefetchChnk = rapid.SampledFrom([]int64{0, 0, 1000, 5000}).Draw(t, "prefetchchunk")
	c.Opaque = rapid.SampledFrom([]string{"trusted", "user", "all"}).Draw(t, "opaque")
	c.BodyPiece = rapid.SampledFrom([]int{0, 0, 1, 7, 64, 1000}).Draw(t, "bodypiece")
	return c
}

// Stack is one configured filesystem backend.
type Stack struct {
	Cfg      Config
	Root     string
	Reg      *memreg.Registry
	Resolver *layer.Resolver
	TaskMgr  *task.BackgroundTaskManager
	Ref      reference.Spec

	DB *bolt.DB // metadata DB (db store only)

	mu   sync.Mutex
	exts map[digest.Digest][]byte // external TOCs by layer digest

	// gate, when armed with ArmTOCDigestGate, runs once inside the next metadata TOCDigest() call.  The
	// verification call reads the TOC digest in the middle of taking its decision, so this is a harness-owned
	// schedule point "another goroutine runs to completion while Verify is in progress".
	gate atomic.Pointer[func()]
}

// ArmTOCDigestGate makes the next TOCDigest() call of any metadata reader of this stack run f (once).
func (s *Stack) ArmTOCDigestGate(f func()) { s.gate.Store(&f) }

// DisarmTOCDigestGate removes an unused gate; it reports whether the gate had fired.
func (s *Stack) DisarmTOCDigestGate() bool { return s.gate.Swap(nil) == nil }

type gateReader struct {
	metadata.Reader
	s *Stack
}

func (g *gateReader) TOCDigest() digest.Digest {
	if f := g.s.gate.Swap(nil); f != nil {
		(*f)()
	}
	return g.Reader.TOCDigest()
}

func (g *gateReader) Clone(sr *io.SectionReader) (metadata.Reader, error) {
	r, err := g.Reader.Clone(sr)
	if err != nil {
		return nil, err
	}
	return &gateReader{Reader: r, s: g.s}, nil
}

// New creates a stack rooted in a fresh temp directory.
func New(cfg Config) (*Stack, error) {
	root, err := os.MkdirTemp("", "fullstack")
	if err != nil {
		return nil, err
	}
	s := &Stack{Cfg: cfg, Root: root, Reg: memreg.New(), exts: map[digest.Digest][]byte{}}
	s.Reg.Piece = cfg.BodyPiece
	s.Ref, _ = reference.Parse("reg.example/repo/img:latest")
	silence := time.Duration(cfg.SilenceMs) * time.Millisecond
	s.TaskMgr = task.NewBackgroundTaskManager(2, silence)
	fetchTO := cfg.FetchTO
	if fetchTO == 0 {
		fetchTO = 5
	}
	validSec := cfg.ValidSec
	if validSec == 0 {
		validSec = 3600
	}
	fc := config.Config{
		HTTPCacheType:            cfg.HTTPCache,
		FSCacheType:              cfg.FSCache,
		ResolveResultEntryTTLSec: cfg.TTLSec,
		PrefetchTimeoutSec:       cfg.PrefetchTO,
		PrefetchAsyncSize:        cfg.AsyncSize,
		BlobConfig:               config.BlobConfig{ChunkSize: cfg.RegChunk, PrefetchChunkSize: cfg.PrefetchChnk, FetchTimeoutSec: fetchTO, ValidInterval: validSec},
		DirectoryCacheConfig:     config.DirectoryCacheConfig{MaxLRUCacheEntry: cfg.LRUEntries, MaxCacheFds: cfg.MaxFds, SyncAdd: cfg.SyncAdd, Direct: cfg.Direct},
		FuseConfig:               config.FuseConfig{PassThrough: cfg.PassThrough, MergeBufferSize: cfg.MergeBuf, MergeWorkerCount: cfg.MergeWorkers},
	}
	var st metadata.Store
	if cfg.Store == "db" {
		db, err := stores.NewDB(filepath.Join(root, "metadata.db"))
		if err != nil {
			os.RemoveAll(root)
			return nil, err
		}
		s.DB = db
		st = stores.DBStore(db)
	} else {
		st, _ = stores.Store("memory")
	}
	inner := st
	st = func(sr *io.SectionReader, opts ...metadata.Option) (metadata.Reader, error) {
		r, err := inner(sr, opts...)
		if err != nil {
			return nil, err
		}
		return &gateReader{Reader: r, s: s}, nil
	}
	opq := layer.OverlayOpaqueTrusted
	switch cfg.Opaque {
	case "user":
		opq = layer.OverlayOpaqueUser
	case "all":
		opq = layer.OverlayOpaqueAll
	}
	s.Resolver, err = layer.NewResolver(filepath.Join(root, "stargz"), s.TaskMgr, fc, nil, st, opq,
		func(ctx context.Context, hosts source.RegistryHosts, refspec reference.Spec, desc ocispec.Descriptor) []metadata.Decompressor {
			return []metadata.Decompressor{externaltoc.NewGzipDecompressor(func() ([]byte, error) {
				s.mu.Lock()
				defer s.mu.Unlock()
				if b, ok := s.exts[desc.Digest]; ok && b != nil {
					return b, nil
				}
				return nil, fmt.Errorf("no external TOC for %s", desc.Digest)
			})}
		})
	if err != nil {
		os.RemoveAll(root)
		return nil, err
	}
	return s, nil
}

// AddBlob registers a layer blob (and its external TOC, if any) and returns its descriptor.
func (s *Stack) AddBlob(blob, ext []byte) ocispec.Descriptor {
	d := digest.FromBytes(blob)
	s.Reg.AddBlob(d.String(), blob)
	s.mu.Lock()
	s.exts[d] = ext
	s.mu.Unlock()
	return ocispec.Descriptor{Digest: d, Size: int64(len(blob)), MediaType: ocispec.MediaTypeImageLayerGzip}
}

// SetExternalTOC replaces the external TOC served for a layer.
func (s *Stack) SetExternalTOC(d digest.Digest, ext []byte) {
	s.mu.Lock()
	s.exts[d] = ext
	s.mu.Unlock()
}

// Resolve resolves a layer.
func (s *Stack) Resolve(desc ocispec.Descriptor) (layer.Layer, error) {
	return s.Resolver.Resolve(context.Background(), s.Reg.Hosts(), s.Ref, desc)
}

// Close removes the stack's directory.
func (s *Stack) Close() {
	if s.DB != nil {
		s.DB.Close()
	}
	os.RemoveAll(s.Root)
}

// CacheDirs counts the per-layer fscache and per-blob httpcache directories that exist.
func (s *Stack) CacheDirs() (fscache, httpcache int) {
	for i, sub := range []string{"fscache", "httpcache"} {
		ents, _ := os.ReadDir(filepath.Join(s.Root, "stargz", sub))
		n := 0
		for _, e := range ents {
			if e.IsDir() {
				n++
			}
		}
		if i == 0 {
			fscache = n
		} else {
			httpcache = n
		}
	}
	return
}

// WaitCacheWritesLanded waits until the directory caches have no write in progress (their "wip" directories are
// empty).  Without sync_add a committed chunk is written to its cache file by a background goroutine; until that
// file exists a tiny memory LRU may already have dropped the chunk, so "it is cached" only holds after this.
func (s *Stack) WaitCacheWritesLanded(max time.Duration) bool {
	deadline := time.Now().Add(max)
	for {
		busy := false
		filepath.WalkDir(filepath.Join(s.Root, "stargz"), func(p string, d os.DirEntry, err error) error {
			if err == nil && d.IsDir() && d.Name() == "wip" {
				if ents, _ := os.ReadDir(p); len(ents) > 0 {
					busy = true
				}
				return filepath.SkipDir
			}
			return nil
		})
		if !busy {
			return true
		}
		if time.Now().After(deadline) {
			return false
		}
		time.Sleep(time.Millisecond)
	}
}

// DBBuckets counts the filesystem buckets in the metadata DB (-1 if the store is not the DB store).
func (s *Stack) DBBuckets() int {
	if s.DB == nil {
		return -1
	}
	n := 0
	s.DB.View(func(tx *bolt.Tx) error {
		if b := tx.Bucket([]byte("filesystems")); b != nil {
			b.ForEach(func(k, v []byte) error { n++; return nil })
		}
		return nil
	})
	return n
}
