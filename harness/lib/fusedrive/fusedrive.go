// Package fusedrive drives go-fuse node implementations without a kernel mount, the way the
// repository's own fs/layer tests do: fusefs.NewNodeFS initialises the inode tree and the
// operations are called through the go-fuse interfaces.
package fusedrive

import (
	"context"
	"fmt"
	"sort"
	"strings"
	"syscall"

	fusefs "github.com/hanwen/go-fuse/v2/fs"
	"github.com/hanwen/go-fuse/v2/fuse"
)

// FS wraps a root node.
type FS struct {
	Root *fusefs.Inode
	// Memo makes Lookup register the child in the parent's in-memory children like the kernel bridge does,
	// so that later lookups go through the "lookup on memory nodes" path.
	Memo bool
}

// New initialises the tree.
func New(root fusefs.InodeEmbedder, memo bool) *FS {
	fusefs.NewNodeFS(root, &fusefs.Options{})
	return &FS{Root: root.EmbeddedInode(), Memo: memo}
}

// Dirent is one listing entry.
type Dirent struct {
	Name string
	Mode uint32
	Ino  uint64
}

// Readdir lists a directory (sorted), without "." and "..".
func (f *FS) Readdir(dir *fusefs.Inode) ([]Dirent, syscall.Errno) {
	rd, ok := dir.Operations().(fusefs.NodeReaddirer)
	if !ok {
		return nil, syscall.ENOTDIR
	}
	ds, errno := rd.Readdir(context.Background())
	if errno != 0 {
		return nil, errno
	}
	var out []Dirent
	for ds.HasNext() {
		e, errno := ds.Next()
		if errno != 0 {
			return nil, errno
		}
		if e.Name == "." || e.Name == ".." {
			continue
		}
		out = append(out, Dirent{Name: e.Name, Mode: e.Mode, Ino: e.Ino})
	}
	sort.Slice(out, func(i, j int) bool { return out[i].Name < out[j].Name })
	return out, 0
}

// Lookup looks a name up in a directory.
func (f *FS) Lookup(dir *fusefs.Inode, name string) (*fusefs.Inode, fuse.EntryOut, syscall.Errno) {
	var out fuse.EntryOut
	lk, ok := dir.Operations().(fusefs.NodeLookuper)
	if !ok {
		return nil, out, syscall.ENOTDIR
	}
	ch, errno := lk.Lookup(context.Background(), name, &out)
	if errno != 0 {
		return nil, out, errno
	}
	if f.Memo && dir.GetChild(name) == nil {
		dir.AddChild(name, ch, false)
	}
	return ch, out, 0
}

// Walk resolves a clean path from the root.
func (f *FS) Walk(p string) (*fusefs.Inode, fuse.EntryOut, syscall.Errno) {
	n := f.Root
	var out fuse.EntryOut
	if p == "" {
		var ao fuse.AttrOut
		if ga, ok := n.Operations().(fusefs.NodeGetattrer); ok {
			if errno := ga.Getattr(context.Background(), nil, &ao); errno != 0 {
				return nil, out, errno
			}
		}
		out.Attr = ao.Attr
		return n, out, 0
	}
	for _, part := range strings.Split(p, "/") {
		ch, o, errno := f.Lookup(n, part)
		if errno != 0 {
			return nil, o, errno
		}
		n, out = ch, o
	}
	return n, out, 0
}

// Getattr returns the attributes of a node.
func (f *FS) Getattr(n *fusefs.Inode) (fuse.Attr, syscall.Errno) {
	var ao fuse.AttrOut
	ga, ok := n.Operations().(fusefs.NodeGetattrer)
	if !ok {
		return ao.Attr, syscall.ENOSYS
	}
	errno := ga.Getattr(context.Background(), nil, &ao)
	return ao.Attr, errno
}

// Readlink reads a symlink.
func (f *FS) Readlink(n *fusefs.Inode) (string, syscall.Errno) {
	rl, ok := n.Operations().(fusefs.NodeReadlinker)
	if !ok {
		return "", syscall.EINVAL
	}
	b, errno := rl.Readlink(context.Background())
	return string(b), errno
}

// Xattrs returns all extended attributes via Listxattr + Getxattr.
func (f *FS) Xattrs(n *fusefs.Inode) (map[string][]byte, syscall.Errno) {
	ls, ok := n.Operations().(fusefs.NodeListxattrer)
	if !ok {
		return nil, syscall.ENOSYS
	}
	sz, errno := ls.Listxattr(context.Background(), nil)
	if errno != 0 && errno != syscall.ERANGE {
		return nil, errno
	}
	buf := make([]byte, sz)
	sz, errno = ls.Listxattr(context.Background(), buf)
	if errno != 0 {
		return nil, errno
	}
	out := map[string][]byte{}
	gx := n.Operations().(fusefs.NodeGetxattrer)
	for _, k := range strings.Split(string(buf[:sz]), "\x00") {
		if k == "" {
			continue
		}
		vs, errno := gx.Getxattr(context.Background(), k, nil)
		if errno != 0 && errno != syscall.ERANGE {
			return nil, errno
		}
		vb := make([]byte, vs)
		vs, errno = gx.Getxattr(context.Background(), k, vb)
		if errno != 0 {
			return nil, errno
		}
		out[k] = vb[:vs]
	}
	return out, 0
}

// Getxattr reads one xattr.
func (f *FS) Getxattr(n *fusefs.Inode, key string) ([]byte, syscall.Errno) {
	gx, ok := n.Operations().(fusefs.NodeGetxattrer)
	if !ok {
		return nil, syscall.ENOSYS
	}
	vs, errno := gx.Getxattr(context.Background(), key, nil)
	if errno != 0 && errno != syscall.ERANGE {
		return nil, errno
	}
	vb := make([]byte, vs)
	vs, errno = gx.Getxattr(context.Background(), key, vb)
	return vb[:vs], errno
}

// Handle is an open file.
type Handle struct {
	fh fusefs.FileHandle
	n  *fusefs.Inode
}

// Open opens a regular file.
func (f *FS) Open(n *fusefs.Inode) (*Handle, syscall.Errno) {
	op, ok := n.Operations().(fusefs.NodeOpener)
	if !ok {
		return nil, syscall.ENOSYS
	}
	fh, _, errno := op.Open(context.Background(), 0)
	if errno != 0 {
		return nil, errno
	}
	return &Handle{fh: fh, n: n}, 0
}

// Read reads through the handle (FileReader) or the node (NodeReader).
func (h *Handle) Read(p []byte, off int64) (int, syscall.Errno) {
	var rr fuse.ReadResult
	var errno syscall.Errno
	if fr, ok := h.fh.(fusefs.FileReader); ok {
		rr, errno = fr.Read(context.Background(), p, off)
	} else if nr, ok := h.n.Operations().(fusefs.NodeReader); ok {
		rr, errno = nr.Read(context.Background(), h.fh, p, off)
	} else {
		return 0, syscall.ENOSYS
	}
	if errno != 0 {
		return 0, errno
	}
	b, st := rr.Bytes(make([]byte, len(p)))
	if st != fuse.OK {
		return 0, syscall.Errno(st)
	}
	n := copy(p, b)
	return n, 0
}

// PassthroughFd returns the backing fd if the handle offers passthrough.
func (h *Handle) PassthroughFd() (int, bool) {
	if p, ok := h.fh.(fusefs.FilePassthroughFder); ok {
		return p.PassthroughFd()
	}
	return -1, false
}

// Release releases the handle.
func (h *Handle) Release() {
	if r, ok := h.fh.(fusefs.FileReleaser); ok {
		r.Release(context.Background())
	}
}

// ErrnoErr formats an errno.
func ErrnoErr(what string, e syscall.Errno) error {
	return fmt.Errorf("%s: errno %d (%s)", what, int(e), e.Error())
}
