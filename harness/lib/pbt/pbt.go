// Package pbt is the shared skeleton of every check: a property is
//
//	gen(*rapid.T) C     — all randomness comes from rapid draws, C is a plain JSON value
//	run(C, *Ev) error   — pure function of (code under test, C); error == violation
//
// and pbt.Run wires it to rapid (search + shrinking), to replay files, to the saved
// regression cases and to the per-shard evidence collector.
package pbt

import (
	"crypto/sha256"
	"encoding/binary"
	"encoding/json"
	"errors"
	"flag"
	"fmt"
	"os"
	"path/filepath"
	"runtime"
	"runtime/debug"
	"sort"
	"strconv"
	"strings"
	"sync"
	"testing"
	"time"

	"pgregory.net/rapid"
)

// Options describes one generated check ("sub-property") of a property.
type Options struct {
	Prop     string // "C10"
	Name     string // "TTLSeq"; unique inside the property
	Quick    int    // total number of cases in the quick tier (split across shards)
	Thorough int    // total number of cases in the thorough tier
	// Current makes the harness write the case to $VERIF_OUT/current-<pid>.json before it
	// runs, so that a fatal runtime error still leaves a reproducer.
	Current bool
	// Timeout is the per-case watchdog (0 = none).  On expiry the case is written out as a
	// hang candidate and the process exits with status 3; the driver re-runs it alone.
	Timeout time.Duration
	// Rule describes the generator and the non-triviality rule (goes to the evidence file).
	Rule string
	// Floors: class -> minimal fraction of evaluations; checked by the driver (exit 2).
	Floors map[string]float64
	// MaxSampleBytes bounds the JSON size of a case kept as evidence sample (default 6000).
	MaxSampleBytes int
}

// Ev collects what one executed case looked like.
type Ev struct {
	classes  map[string]struct{}
	nt       bool
	Skipped  int // commands skipped because their slot was not live
	Steps    int // commands executed
	excluded map[string]int
}

// Class records that the executed case belongs to class c.
func (e *Ev) Class(c string) {
	if e.classes == nil {
		e.classes = map[string]struct{}{}
	}
	e.classes[c] = struct{}{}
}

// ClassIf records the class when cond holds.
func (e *Ev) ClassIf(cond bool, c string) {
	if cond {
		e.Class(c)
	}
}

// NT marks the case as non-trivial by the property's stated rule.
func (e *Ev) NT() { e.nt = true }

// NTIf marks the case as non-trivial when cond holds.
func (e *Ev) NTIf(cond bool) {
	if cond {
		e.nt = true
	}
}

// Has reports whether class c was recorded.
func (e *Ev) Has(c string) bool { _, ok := e.classes[c]; return ok }

// Exclude records that a violation matching known finding id was observed and suppressed.
func (e *Ev) Exclude(id string) {
	if e.excluded == nil {
		e.excluded = map[string]int{}
	}
	e.excluded[id]++
}

// Excluded returns how often a violation matching the known finding id was suppressed in this case.
func (e *Ev) Excluded(id string) int { return e.excluded[id] }

// inconclusive marks errors that are the harness's problem, not the property's.
type inconclusive struct{ err error }

func (i inconclusive) Error() string { return "INCONCLUSIVE: " + i.err.Error() }

// Inconclusive wraps an error that must not be reported as a violation.
func Inconclusive(format string, a ...any) error {
	return inconclusive{fmt.Errorf(format, a...)}
}

// Violation is an oracle failure.  Kind is a short stable label: rapid only shrinks towards
// cases that fail with the same label (the detail text may vary from run to run).
type Violation struct {
	Kind   string
	Detail string
}

func (v *Violation) Error() string { return v.Kind + ": " + v.Detail }

// Violf builds a Violation.
func Violf(kind, format string, a ...any) error {
	return &Violation{Kind: kind, Detail: fmt.Sprintf(format, a...)}
}

func kindOf(err error) string {
	var v *Violation
	if errors.As(err, &v) {
		return v.Kind
	}
	if strings.HasPrefix(err.Error(), "panic:") {
		return "panic"
	}
	return "error"
}

// ---------------------------------------------------------------------------------------

type envelope struct {
	Prop string          `json:"prop"`
	Test string          `json:"test"`
	Err  string          `json:"error,omitempty"`
	Case json.RawMessage `json:"case"`
}

type shardEvidence struct {
	Prop       string             `json:"prop"`
	Test       string             `json:"test"`
	Tier       string             `json:"tier"`
	Shard      int                `json:"shard"`
	Shards     int                `json:"shards"`
	Seed       uint64             `json:"rapid_seed"`
	Requested  int                `json:"requested"`
	Executed   int                `json:"executed"`
	NonTrivial int                `json:"nontrivial"`
	Classes    map[string]int     `json:"classes"`
	Skipped    int                `json:"skipped_commands"`
	Steps      int                `json:"executed_commands"`
	Excluded   map[string]int     `json:"excluded_by_known_finding"`
	Samples    []json.RawMessage  `json:"samples"`
	Rule       string             `json:"rule"`
	Floors     map[string]float64 `json:"floors,omitempty"`
	Failed     bool               `json:"failed"`
	Replay     string             `json:"replay,omitempty"`
	WallS      float64            `json:"wall_s"`
	FPFile     string             `json:"fp_file"`
}

func envInt(k string, def int) int {
	if v := os.Getenv(k); v != "" {
		if n, err := strconv.Atoi(v); err == nil {
			return n
		}
	}
	return def
}

// Root returns the /verif directory.
func Root() string {
	if v := os.Getenv("VERIF_ROOT"); v != "" {
		return v
	}
	return "/verif"
}

func outDir() string {
	if v := os.Getenv("VERIF_OUT"); v != "" {
		return v
	}
	d := filepath.Join(os.TempDir(), "verif-out")
	os.MkdirAll(d, 0o755)
	return d
}

// Tier returns "quick" or "thorough".
func Tier() string {
	if os.Getenv("VERIF_TIER") == "thorough" {
		return "thorough"
	}
	return "quick"
}

func fingerprint(b []byte) uint64 {
	h := sha256.Sum256(b)
	return binary.LittleEndian.Uint64(h[:8])
}

func safeRun[C any](run func(C, *Ev) error, c C, ev *Ev) (err error) {
	defer func() {
		if r := recover(); r != nil {
			err = fmt.Errorf("panic: %v\n%s", r, debug.Stack())
		}
	}()
	return run(c, ev)
}

func runWatched[C any](o Options, run func(C, *Ev) error, c C, ev *Ev, raw []byte) error {
	if o.Timeout <= 0 {
		return safeRun(run, c, ev)
	}
	o.Timeout *= time.Duration(envInt("VERIF_TIMEOUT_MULT", 1))
	ch := make(chan error, 1)
	go func() { ch <- safeRun(run, c, ev) }()
	tm := time.NewTimer(o.Timeout)
	defer tm.Stop()
	select {
	case err := <-ch:
		return err
	case <-tm.C:
		p := filepath.Join(outDir(), fmt.Sprintf("hang-%s-%s-%d.json", o.Prop, o.Name, os.Getpid()))
		writeEnvelope(p, o, raw, fmt.Sprintf("hang: case did not finish within %v", o.Timeout))
		// all goroutine stacks, for diagnosis
		buf := make([]byte, 8<<20)
		os.WriteFile(p+".stacks.txt", buf[:runtime.Stack(buf, true)], 0o644)
		fmt.Printf("HANG-CANDIDATE property=%s test=%s file=%s\n", o.Prop, o.Name, p)
		os.Exit(3)
		return nil
	}
}

func writeEnvelope(path string, o Options, raw []byte, errStr string) {
	b, _ := json.MarshalIndent(envelope{Prop: o.Prop, Test: o.Name, Err: errStr, Case: raw}, "", " ")
	os.MkdirAll(filepath.Dir(path), 0o755)
	tmp := path + ".tmp"
	if err := os.WriteFile(tmp, b, 0o644); err == nil {
		os.Rename(tmp, path)
	}
}

var setFlagMu sync.Mutex

// Run executes the check.  Modes (selected by the environment):
//
//	VERIF_REPLAY=<file>   decode the case in <file> (if it belongs to this test) and run it once
//	VERIF_MODE=regress    run every saved case under $VERIF_ROOT/regress/<Prop>/<Name>-*.json
//	otherwise             rapid search with the tier's case count for this shard
func Run[C any](t *testing.T, o Options, gen func(*rapid.T) C, run func(C, *Ev) error) {
	t.Helper()
	if o.MaxSampleBytes == 0 {
		o.MaxSampleBytes = 6000
	}
	if f := os.Getenv("VERIF_REPLAY"); f != "" {
		replayFile(t, o, f, run, true)
		return
	}
	if os.Getenv("VERIF_MODE") == "regress" {
		files, _ := filepath.Glob(filepath.Join(Root(), "regress", o.Prop, o.Name+"-*.json"))
		sort.Strings(files)
		for _, f := range files {
			replayFile(t, o, f, run, false)
		}
		fmt.Printf("REGRESS property=%s test=%s files=%d\n", o.Prop, o.Name, len(files))
		return
	}
	if only := os.Getenv("VERIF_ONLY"); only != "" && only != o.Name {
		t.Skip("not selected")
	}

	shards := envInt("VERIF_SHARDS", 1)
	shard := envInt("VERIF_SHARD", 0)
	total := o.Quick
	if Tier() == "thorough" {
		total = o.Thorough
	}
	if v := envInt("VERIF_CASES", 0); v > 0 { // development override
		total = v
	}
	checks := (total + shards - 1) / shards
	if checks < 1 {
		checks = 1
	}
	vseed, _ := strconv.ParseUint(os.Getenv("VERIF_SEED"), 10, 64)
	h := sha256.Sum256([]byte(fmt.Sprintf("%d/%s/%s/%d", vseed, o.Prop, o.Name, shard)))
	seed := binary.LittleEndian.Uint64(h[:8]) >> 1
	if seed == 0 {
		seed = 1
	}
	setFlagMu.Lock()
	flag.Set("rapid.checks", strconv.Itoa(checks))
	flag.Set("rapid.seed", strconv.FormatUint(seed, 10))
	flag.Set("rapid.nofailfile", "true")
	setFlagMu.Unlock()

	se := &shardEvidence{Prop: o.Prop, Test: o.Name, Tier: Tier(), Shard: shard, Shards: shards, Seed: seed,
		Requested: checks, Classes: map[string]int{}, Excluded: map[string]int{}, Rule: o.Rule, Floors: o.Floors}
	fps := map[uint64]struct{}{}
	sampled := map[string]bool{}
	var lastFailRaw []byte
	var lastFailErr string
	sawInconclusive := ""
	start := time.Now()
	curPath := filepath.Join(outDir(), fmt.Sprintf("current-%s-%s-%d.json", o.Prop, o.Name, os.Getpid()))

	finish := func() {
		se.WallS = time.Since(start).Seconds()
		se.NonTrivial = len(fps)
		se.Failed = t.Failed()
		if lastFailRaw != nil && t.Failed() {
			p := filepath.Join(outDir(), fmt.Sprintf("replay-%s-%s-%d.json", o.Prop, o.Name, shard))
			writeEnvelope(p, o, lastFailRaw, lastFailErr)
			se.Replay = p
			fmt.Printf("FAILCASE property=%s test=%s replay=%s\n", o.Prop, o.Name, p)
		}
		if sawInconclusive != "" {
			fmt.Printf("INCONCLUSIVE property=%s test=%s %s\n", o.Prop, o.Name, strings.ReplaceAll(sawInconclusive, "\n", " | "))
		}
		base := filepath.Join(outDir(), fmt.Sprintf("evid-%s-%s-%d", o.Prop, o.Name, shard))
		fpb := make([]byte, 0, 8*len(fps))
		for k := range fps {
			fpb = binary.LittleEndian.AppendUint64(fpb, k)
		}
		se.FPFile = base + ".fp"
		os.WriteFile(se.FPFile, fpb, 0o644)
		b, _ := json.Marshal(se)
		os.WriteFile(base+".json", b, 0o644)
		if o.Current {
			os.Remove(curPath)
		}
		fmt.Printf("SHARD-DONE property=%s test=%s executed=%d requested=%d nontrivial=%d\n", o.Prop, o.Name, se.Executed, se.Requested, se.NonTrivial)
	}
	defer finish()

	rapid.Check(t, func(rt *rapid.T) {
		c := gen(rt)
		raw, err := json.Marshal(c)
		if err != nil {
			rt.Fatalf("harness: case is not serialisable: %v", err)
		}
		if o.Current {
			writeEnvelope(curPath, o, raw, "")
		}
		ev := &Ev{}
		rerr := runWatched(o, run, c, ev, raw)
		var inc inconclusive
		if rerr != nil && errors.As(rerr, &inc) {
			sawInconclusive = rerr.Error()
			rerr = nil
			ev.nt = false
			ev.Class("inconclusive")
		}
		se.Executed++
		se.Skipped += ev.Skipped
		se.Steps += ev.Steps
		for k := range ev.classes {
			se.Classes[k]++
		}
		for k, n := range ev.excluded {
			se.Excluded[k] += n
		}
		if ev.nt {
			se.Classes["nontrivial"]++
			fps[fingerprint(raw)] = struct{}{}
			if len(se.Samples) < 6 && len(raw) <= o.MaxSampleBytes {
				key := classKey(ev)
				if !sampled[key] {
					sampled[key] = true
					eb, _ := json.Marshal(envelope{Prop: o.Prop, Test: o.Name, Case: raw})
					se.Samples = append(se.Samples, eb)
				}
			}
		}
		if rerr != nil {
			lastFailRaw = raw
			lastFailErr = rerr.Error()
			rt.Fatalf("violation[%s]", kindOf(rerr))
		}
	})
}

func classKey(ev *Ev) string {
	ks := make([]string, 0, len(ev.classes))
	for k := range ev.classes {
		ks = append(ks, k)
	}
	sort.Strings(ks)
	return strings.Join(ks, ",")
}

func replayFile[C any](t *testing.T, o Options, f string, run func(C, *Ev) error, single bool) {
	t.Helper()
	b, err := os.ReadFile(f)
	if err != nil {
		t.Fatalf("replay: %v", err)
	}
	var env envelope
	if err := json.Unmarshal(b, &env); err != nil {
		t.Fatalf("replay: %s: %v", f, err)
	}
	if env.Prop != o.Prop || env.Test != o.Name {
		if single {
			t.Skip("replay file belongs to another test")
		}
		return
	}
	var c C
	if err := json.Unmarshal(env.Case, &c); err != nil {
		t.Fatalf("replay: %s: cannot decode case: %v", f, err)
	}
	ev := &Ev{}
	fmt.Printf("REPLAY-RUN property=%s test=%s file=%s\n", o.Prop, o.Name, f)
	rerr := runWatched(o, run, c, ev, env.Case)
	var inc inconclusive
	if rerr != nil && errors.As(rerr, &inc) {
		fmt.Printf("INCONCLUSIVE property=%s test=%s %v\n", o.Prop, o.Name, rerr)
		return
	}
	if rerr != nil {
		fmt.Printf("FAILCASE property=%s test=%s replay=%s\n", o.Prop, o.Name, f)
		t.Errorf("violation on replay of %s: %v", f, rerr)
	}
}

// ---------------------------------------------------------------------------------------
// known findings

// Finding is one entry of /verif/known_findings.json.
type Finding struct {
	ID       string `json:"id"`
	Status   string `json:"status"` // "known" | "fixed"
	Property string `json:"property"`
	What     string `json:"what"`
	Commit   string `json:"commit,omitempty"`
}

var (
	findingsOnce sync.Once
	findings     map[string]Finding
)

func loadFindings() {
	findings = map[string]Finding{}
	b, err := os.ReadFile(filepath.Join(Root(), "known_findings.json"))
	if err != nil {
		return
	}
	var doc struct {
		Findings []Finding `json:"findings"`
	}
	if json.Unmarshal(b, &doc) != nil {
		return
	}
	for _, f := range doc.Findings {
		findings[f.ID] = f
	}
}

// Known reports whether id is listed as a recorded (not fixed) finding.  Only then may a
// matching violation be suppressed.
func Known(id string) bool {
	findingsOnce.Do(loadFindings)
	f, ok := findings[id]
	return ok && f.Status == "known"
}

// Reproduced is printed by TestKnown_* tests when a listed finding still reproduces.
func Reproduced(id string, reproduced bool, detail string) {
	fmt.Printf("KNOWN-CHECK id=%s reproduced=%v %s\n", id, reproduced, strings.ReplaceAll(detail, "\n", " | "))
}
