// Package recfs is a recording snapshot.FileSystem with scripted outcomes.
package recfs

import (
	"time"
	"context"
	"fmt"
	"os"
	"sort"
	"sync"
	"syscall"
)

// Event is one backend call.
type Event struct {
	Seq    int
	Op     string // mount | check | unmount
	MP     string
	Labels map[string]string
	Err    bool
	// DirExisted reports whether the mountpoint directory existed when the call arrived.
	DirExisted bool
}

// FS records calls and answers them from a script.
type FS struct {
	mu     sync.Mutex
	Name   string
	live   map[string]map[string]string // mountpoint -> labels
	events []Event
	// Decide returns true if the call must fail.  Called with the lock held.
	Decide func(op, mp string, seq int) bool
	// Slow, when set, is asked before a Check takes the lock: the call sleeps that long first (a registry that
	// answers late), so that checks issued in parallel really overlap.
	Slow func(op, mp string) time.Duration
	// BindSrc, when set, makes every successful Mount a real bind mount of this (empty) directory onto the
	// mountpoint, so that the kernel protects a mounted directory from deletion exactly as it does for the real
	// FUSE mounts.  Requires root.
	BindSrc string
}

// UnmountAll detaches every real bind mount that is still live (end of a case).
func (f *FS) UnmountAll() {
	f.mu.Lock()
	defer f.mu.Unlock()
	if f.BindSrc == "" {
		return
	}
	for mp := range f.live {
		syscall.Unmount(mp, syscall.MNT_DETACH)
	}
}

// New returns an empty recording filesystem.
func New(name string) *FS { return &FS{Name: name, live: map[string]map[string]string{}} }

func (f *FS) record(op, mp string, labels map[string]string) (fail bool) {
	_, err := os.Stat(mp)
	e := Event{Seq: len(f.events), Op: op, MP: mp, Labels: labels, DirExisted: err == nil}
	if f.Decide != nil {
		e.Err = f.Decide(op, mp, e.Seq)
	}
	f.events = append(f.events, e)
	return e.Err
}

// Mount implements snapshot.FileSystem.
func (f *FS) Mount(ctx context.Context, mountpoint string, labels map[string]string) error {
	f.mu.Lock()
	defer f.mu.Unlock()
	cp := map[string]string{}
	for k, v := range labels {
		cp[k] = v
	}
	if f.record("mount", mountpoint, cp) {
		return fmt.Errorf("recfs: scripted mount failure at %s", mountpoint)
	}
	if _, dup := f.live[mountpoint]; dup {
		f.events[len(f.events)-1].Op = "mount-dup"
	} else if f.BindSrc != "" {
		if err := syscall.Mount(f.BindSrc, mountpoint, "", syscall.MS_BIND, ""); err != nil {
			return fmt.Errorf("recfs: bind mount at %s: %w", mountpoint, err)
		}
	}
	f.live[mountpoint] = cp
	return nil
}

// Check implements snapshot.FileSystem.
func (f *FS) Check(ctx context.Context, mountpoint string, labels map[string]string) error {
	if f.Slow != nil {
		if d := f.Slow("check", mountpoint); d > 0 {
			time.Sleep(d)
		}
	}
	f.mu.Lock()
	defer f.mu.Unlock()
	if f.record("check", mountpoint, nil) {
		return fmt.Errorf("recfs: scripted check failure at %s", mountpoint)
	}
	if _, ok := f.live[mountpoint]; !ok {
		return fmt.Errorf("recfs: %s is not mounted", mountpoint)
	}
	return nil
}

// Unmount implements snapshot.FileSystem.
func (f *FS) Unmount(ctx context.Context, mountpoint string) error {
	f.mu.Lock()
	defer f.mu.Unlock()
	if f.record("unmount", mountpoint, nil) {
		return fmt.Errorf("recfs: scripted unmount failure at %s", mountpoint)
	}
	if _, ok := f.live[mountpoint]; !ok {
		return fmt.Errorf("recfs: %s is not mounted", mountpoint)
	}
	delete(f.live, mountpoint)
	if f.BindSrc != "" {
		syscall.Unmount(mountpoint, syscall.MNT_DETACH)
	}
	return nil
}

// Forget drops the bookkeeping for mounts that were force-unmounted behind the backend's back (restart).
func (f *FS) Forget() {
	f.mu.Lock()
	f.live = map[string]map[string]string{}
	f.mu.Unlock()
}

// Live returns the live mountpoints (sorted) with their labels.
func (f *FS) Live() map[string]map[string]string {
	f.mu.Lock()
	defer f.mu.Unlock()
	out := map[string]map[string]string{}
	for k, v := range f.live {
		out[k] = v
	}
	return out
}

// LiveList returns the sorted live mountpoints.
func (f *FS) LiveList() []string {
	var o []string
	for k := range f.Live() {
		o = append(o, k)
	}
	sort.Strings(o)
	return o
}

// Events returns a copy of the call log.
func (f *FS) Events() []Event {
	f.mu.Lock()
	defer f.mu.Unlock()
	return append([]Event(nil), f.events...)
}
