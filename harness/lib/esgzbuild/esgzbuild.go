// Package esgzbuild drives the repository's builder / writer from plain option values.
package esgzbuild

import (
	"bytes"
	"compress/gzip"
	"fmt"
	"io"

	"github.com/containerd/stargz-snapshotter/estargz"
	"github.com/containerd/stargz-snapshotter/estargz/externaltoc"
	"github.com/containerd/stargz-snapshotter/estargz/zstdchunked"
	"github.com/klauspost/compress/zstd"
	"pgregory.net/rapid"
)

// Opts are the build options of a case (plain JSON value).
type Opts struct {
	Compression  string   `json:"compression"` // gzip | zstd | external
	Level        int      `json:"level"`       // gzip level (-1..9) or zstd level (1..4)
	ChunkSize    int      `json:"chunk_size"`
	MinChunkSize int      `json:"min_chunk_size,omitempty"`
	Workers      int      `json:"workers,omitempty"`
	Prioritized  []string `json:"prioritized,omitempty"`
	AllowMissing bool     `json:"allow_missing,omitempty"`
}

// Built is the result of a build.
type Built struct {
	Blob             []byte
	TOCDigest        string
	DiffID           string
	UncompressedSize int64
	ExternalTOC      []byte
	Missed           []string
}

// GenOpts draws build options.
func GenOpts(t *rapid.T, comps []string) Opts {
	o := Opts{Compression: rapid.SampledFrom(comps).Draw(t, "compression")}
	o.ChunkSize = rapid.SampledFrom([]int{1, 2, 3, 7, 16, 16, 16, 31, 64, 0}).Draw(t, "chunk")
	if rapid.IntRange(0, 2).Draw(t, "usemin") == 0 {
		o.MinChunkSize = rapid.SampledFrom([]int{1, 10, 40, 100, 200, 1000}).Draw(t, "minchunk")
	}
	o.Workers = rapid.SampledFrom([]int{1, 1, 2, 3, 4, 8, 12}).Draw(t, "workers")
	if o.Compression == "zstd" {
		o.Level = rapid.IntRange(1, 4).Draw(t, "zlevel")
	} else {
		o.Level = rapid.SampledFrom([]int{-1, 0, 1, 6, 9}).Draw(t, "glevel")
	}
	return o
}

// EffectiveChunk is the chunk size the builder uses.
func (o Opts) EffectiveChunk() int {
	if o.ChunkSize <= 0 {
		return 4 << 20
	}
	return o.ChunkSize
}

type compression struct {
	c   estargz.Compression
	ext *externaltoc.GzipCompressor
}

func (o Opts) compression(provide func() ([]byte, error)) compression {
	switch o.Compression {
	case "zstd":
		return compression{c: &zstdComp{&zstdchunked.Compressor{CompressionLevel: zstd.EncoderLevel(o.Level)}, &zstdchunked.Decompressor{}}}
	case "external":
		gc := externaltoc.NewGzipCompressorWithLevel(o.Level)
		return compression{c: &externaltoc.GzipCompression{GzipCompressor: gc, GzipDecompressor: externaltoc.NewGzipDecompressor(provide)}, ext: gc}
	}
	return compression{}
}

type zstdComp struct {
	*zstdchunked.Compressor
	*zstdchunked.Decompressor
}

// Build runs estargz.Build.
func Build(tarBytes []byte, o Opts) (*Built, error) {
	var opts []estargz.Option
	opts = append(opts, estargz.WithChunkSize(o.ChunkSize))
	if o.MinChunkSize > 0 {
		opts = append(opts, estargz.WithMinChunkSize(o.MinChunkSize))
	}
	if o.Workers > 0 {
		opts = append(opts, estargz.WithParallelism(o.Workers))
	}
	if len(o.Prioritized) > 0 {
		opts = append(opts, estargz.WithPrioritizedFiles(o.Prioritized))
	}
	res := &Built{}
	if o.AllowMissing {
		opts = append(opts, estargz.WithAllowPrioritizeNotFound(&res.Missed))
	}
	cmp := o.compression(nil)
	if cmp.c != nil {
		opts = append(opts, estargz.WithCompression(cmp.c))
	} else {
		opts = append(opts, estargz.WithCompressionLevel(o.Level))
	}
	b, err := estargz.Build(io.NewSectionReader(bytes.NewReader(tarBytes), 0, int64(len(tarBytes))), opts...)
	if err != nil {
		return res, err
	}
	defer b.Close()
	blob, err := io.ReadAll(b)
	if err != nil {
		return res, fmt.Errorf("reading built blob: %w", err)
	}
	res.Blob = blob
	res.TOCDigest = b.TOCDigest().String()
	res.DiffID = b.DiffID().String()
	res.UncompressedSize, err = b.UncompressedSize()
	if err != nil {
		return res, fmt.Errorf("UncompressedSize: %w", err)
	}
	if cmp.ext != nil {
		var tb bytes.Buffer
		if _, err := cmp.ext.WriteTOCTo(&tb); err != nil {
			return res, fmt.Errorf("WriteTOCTo: %w", err)
		}
		res.ExternalTOC = tb.Bytes()
	}
	return res, nil
}

// Write runs the sequential Writer (AppendTar or AppendTarLossLess) + Close.
func Write(tarBytes []byte, o Opts, lossless bool) (*Built, error) {
	var out bytes.Buffer
	cmp := o.compression(nil)
	var w *estargz.Writer
	if cmp.c != nil {
		w = estargz.NewWriterWithCompressor(&out, cmp.c)
	} else {
		w = estargz.NewWriterLevel(&out, o.Level)
	}
	w.ChunkSize = o.ChunkSize
	w.MinChunkSize = o.MinChunkSize
	var err error
	if lossless {
		err = w.AppendTarLossLess(bytes.NewReader(tarBytes))
	} else {
		err = w.AppendTar(bytes.NewReader(tarBytes))
	}
	if err != nil {
		return nil, err
	}
	d, err := w.Close()
	if err != nil {
		return nil, err
	}
	res := &Built{Blob: out.Bytes(), TOCDigest: d.String(), DiffID: w.DiffID()}
	if cmp.ext != nil {
		var tb bytes.Buffer
		if _, err := cmp.ext.WriteTOCTo(&tb); err != nil {
			return res, fmt.Errorf("WriteTOCTo: %w", err)
		}
		res.ExternalTOC = tb.Bytes()
	}
	return res, nil
}

// GzipBytes compresses b (optionally as several members).
func GzipBytes(b []byte, members int) []byte {
	var out bytes.Buffer
	if members < 1 {
		members = 1
	}
	step := (len(b) + members - 1) / members
	if step == 0 {
		step = 1
	}
	for off := 0; off < len(b) || off == 0; off += step {
		end := off + step
		if end > len(b) {
			end = len(b)
		}
		zw := gzip.NewWriter(&out)
		zw.Write(b[off:end])
		zw.Close()
		if len(b) == 0 {
			break
		}
	}
	return out.Bytes()
}

// ZstdBytes compresses b.
func ZstdBytes(b []byte) []byte {
	var out bytes.Buffer
	zw, _ := zstd.NewWriter(&out)
	zw.Write(b)
	zw.Close()
	return out.Bytes()
}
