// Package memreg is an in-memory OCI registry implemented as an http.RoundTripper: blobs with
// Range support (single range, multipart/byteranges), request log, scripted personalities
// and failures, gates.  It is harness code: the checks own every reply it gives.
package memreg

import (
	"bytes"
	"context"
	"crypto/sha256"
	"encoding/hex"
	"errors"
	"fmt"
	"io"
	"net/http"
	"net/textproto"
	"sort"
	"strconv"
	"strings"
	"sync"
	"time"

	"github.com/containerd/containerd/v2/core/remotes/docker"
	"github.com/containerd/containerd/v2/pkg/reference"
	"github.com/containerd/stargz-snapshotter/fs/source"
)

// Range is an inclusive byte range.
type Range struct{ B, E int64 }

// Req is one logged request.
type Req struct {
	Seq    int
	Method string
	Host   string
	Path   string
	Query  string
	Ranges []Range // parsed Range header (nil = none)
	Header http.Header
	Digest string // blob digest addressed (if any)
	Body   []byte // request body (token requests are form posts)
	// Action actually taken
	Action string
}

// Action tells the registry how to answer one request.
type Action struct {
	// Kind: "" (default: exact single 206 or multipart), "multipart", "multipart-reorder",
	// "single-super" (one 206 covering min..max), "whole" (200 + whole body), "status" (Status, no body),
	// "redirect" (Status 307 to Location), "conn-error", "truncate" (default reply, body cut after N bytes),
	// "stall" (block until Gate is closed or the request context ends, then default), "raw" (RawResp)
	Kind     string
	Status   int
	Location string
	N        int64
	Gate     <-chan struct{}
	Raw      func(req *http.Request, blob []byte) (*http.Response, error)
}

// Registry is the fake registry.
type Registry struct {
	mu    sync.Mutex
	blobs map[string][]byte
	ctype map[string]string // digest -> Content-Type (manifests)
	tags  map[string]string // "<repo>:<tag>" -> digest
	log   []Req
	// Decide is consulted for every request (with the lock released); nil = default behaviour.
	Decide func(r *Req) Action
	down   bool
	// ClientTimeout is the per-request timeout of the http.Client handed out by Hosts (the daemon always
	// configures one: default 30 s, see service/resolver.RegistryHostsFromConfig).  Default 1 s.
	ClientTimeout time.Duration
	// Piece > 0 makes every response body deliver at most Piece bytes per Read, like a network does.
	Piece int
}

type pieceReader struct {
	r io.ReadCloser
	n int
}

func (p *pieceReader) Read(b []byte) (int, error) {
	if len(b) > p.n {
		b = b[:p.n]
	}
	return p.r.Read(b)
}
func (p *pieceReader) Close() error { return p.r.Close() }

// New returns an empty registry.
func New() *Registry { return &Registry{blobs: map[string][]byte{}} }

// AddBlob registers a blob under its digest string ("sha256:...").
func (r *Registry) AddBlob(dgst string, b []byte) {
	r.mu.Lock()
	defer r.mu.Unlock()
	r.blobs[dgst] = b
}

// AddManifest registers a manifest (or index) under its digest with a Content-Type and, when tag != "",
// makes /v2/<repo>/manifests/<tag> resolve to it.
func (r *Registry) AddManifest(repo, tag, mediaType string, b []byte) string {
	sum := sha256.Sum256(b)
	dgst := "sha256:" + hex.EncodeToString(sum[:])
	r.mu.Lock()
	defer r.mu.Unlock()
	r.blobs[dgst] = b
	if r.ctype == nil {
		r.ctype = map[string]string{}
		r.tags = map[string]string{}
	}
	r.ctype[dgst] = mediaType
	if tag != "" {
		r.tags[repo+":"+tag] = dgst
	}
	return dgst
}

// SetDown makes every request fail with a connection error (true) or work again (false).
func (r *Registry) SetDown(d bool) {
	r.mu.Lock()
	r.down = d
	r.mu.Unlock()
}

// Log returns a copy of the request log.
func (r *Registry) Log() []Req {
	r.mu.Lock()
	defer r.mu.Unlock()
	return append([]Req(nil), r.log...)
}

// LogLen returns the number of requests seen.
func (r *Registry) LogLen() int {
	r.mu.Lock()
	defer r.mu.Unlock()
	return len(r.log)
}

// ParseRanges parses "bytes=a-b,c-d".
func ParseRanges(h string) ([]Range, error) {
	if h == "" {
		return nil, nil
	}
	if !strings.HasPrefix(h, "bytes=") {
		return nil, fmt.Errorf("bad range %q", h)
	}
	var out []Range
	for _, p := range strings.Split(strings.TrimPrefix(h, "bytes="), ",") {
		p = strings.TrimSpace(p)
		if p == "" {
			continue
		}
		ab := strings.SplitN(p, "-", 2)
		if len(ab) != 2 {
			return nil, fmt.Errorf("bad range %q", h)
		}
		b, err1 := strconv.ParseInt(ab[0], 10, 64)
		e, err2 := strconv.ParseInt(ab[1], 10, 64)
		if err1 != nil || err2 != nil {
			return nil, fmt.Errorf("bad range %q", h)
		}
		out = append(out, Range{b, e})
	}
	return out, nil
}

var errConn = errors.New("memreg: connection refused (scripted)")

// RoundTrip implements http.RoundTripper.
func (r *Registry) RoundTrip(req *http.Request) (*http.Response, error) {
	var reqBody []byte
	if req.Body != nil {
		reqBody, _ = io.ReadAll(io.LimitReader(req.Body, 1<<16))
		req.Body.Close()
	}
	rq := Req{Body: reqBody, Method: req.Method, Host: req.URL.Host, Path: req.URL.Path, Query: req.URL.RawQuery, Header: req.Header.Clone()}
	rq.Ranges, _ = ParseRanges(req.Header.Get("Range"))
	if i := strings.LastIndex(req.URL.Path, "/blobs/"); i >= 0 {
		rq.Digest = req.URL.Path[i+len("/blobs/"):]
	} else if i := strings.LastIndex(req.URL.Path, "/"); i >= 0 && strings.HasPrefix(req.URL.Path[i+1:], "sha256:") {
		rq.Digest = req.URL.Path[i+1:]
	}
	r.mu.Lock()
	if i := strings.LastIndex(req.URL.Path, "/manifests/"); i >= 0 && rq.Digest == "" && strings.HasPrefix(req.URL.Path, "/v2/") {
		rq.Digest = r.tags[req.URL.Path[len("/v2/"):i]+":"+req.URL.Path[i+len("/manifests/"):]]
	}
	ctype := r.ctype[rq.Digest]
	rq.Seq = len(r.log)
	down := r.down
	blob, okBlob := r.blobs[rq.Digest]
	decide := r.Decide
	r.log = append(r.log, rq)
	r.mu.Unlock()

	act := Action{}
	if down {
		act = Action{Kind: "conn-error"}
	} else if decide != nil {
		act = decide(&rq)
	}
	r.mu.Lock()
	r.log[rq.Seq].Action = act.Kind
	r.mu.Unlock()

	switch act.Kind {
	case "conn-error":
		return nil, errConn
	case "status":
		return simple(req, act.Status, nil), nil
	case "redirect":
		st := act.Status
		if st == 0 {
			st = http.StatusTemporaryRedirect
		}
		resp := simple(req, st, nil)
		if act.Location != "" {
			resp.Header.Set("Location", act.Location)
		}
		return resp, nil
	case "raw":
		return act.Raw(req, blob)
	case "stall":
		select {
		case <-act.Gate:
		case <-req.Context().Done():
			return nil, req.Context().Err()
		}
		act.Kind = ""
	}
	if !okBlob {
		return simple(req, http.StatusNotFound, nil), nil
	}
	size := int64(len(blob))
	if req.Method == http.MethodHead {
		resp := simple(req, http.StatusOK, nil)
		resp.Header.Set("Content-Length", strconv.FormatInt(size, 10))
		resp.ContentLength = size
		if ctype != "" {
			resp.Header.Set("Content-Type", ctype)
			resp.Header.Set("Docker-Content-Digest", rq.Digest)
		}
		return resp, nil
	}
	if req.Method != http.MethodGet {
		return simple(req, http.StatusMethodNotAllowed, nil), nil
	}
	rs := clamp(rq.Ranges, size)
	var resp *http.Response
	switch {
	case act.Kind == "whole" || len(rq.Ranges) == 0 || size == 0:
		// (an empty blob answers 200 to a ranged request, like Go's http.ServeContent does)
		resp = simple(req, http.StatusOK, blob)
		resp.Header.Set("Content-Length", strconv.FormatInt(size, 10))
		if ctype != "" {
			resp.Header.Set("Content-Type", ctype)
			resp.Header.Set("Docker-Content-Digest", rq.Digest)
		}
	case len(rs) == 0:
		resp = simple(req, http.StatusRequestedRangeNotSatisfiable, nil)
		resp.Header.Set("Content-Range", fmt.Sprintf("bytes */%d", size))
	case act.Kind == "single-super":
		lo, hi := rs[0].B, rs[0].E
		for _, x := range rs {
			if x.B < lo {
				lo = x.B
			}
			if x.E > hi {
				hi = x.E
			}
		}
		resp = single(req, blob, Range{lo, hi})
	case len(rs) == 1 && act.Kind != "multipart" && act.Kind != "multipart-reorder" && act.Kind != "multipart-omit-last":
		resp = single(req, blob, rs[0])
	default:
		if act.Kind == "multipart-omit-last" && len(rs) > 1 {
			rs = rs[:len(rs)-1]
		}
		if act.Kind == "multipart-reorder" {
			rs = append([]Range(nil), rs...)
			sort.Slice(rs, func(i, j int) bool { return rs[i].B > rs[j].B })
		}
		resp = multipartResp(req, blob, rs)
	}
	if r.Piece > 0 {
		resp.Body = &pieceReader{r: resp.Body, n: r.Piece}
	}
	if act.Kind == "truncate" {
		b, _ := io.ReadAll(resp.Body)
		if act.N < int64(len(b)) {
			b = b[:act.N]
		}
		resp.Body = &truncBody{r: bytes.NewReader(b)}
	}
	return resp, nil
}

type truncBody struct{ r *bytes.Reader }

func (t *truncBody) Read(p []byte) (int, error) {
	n, err := t.r.Read(p)
	if err == io.EOF {
		return n, io.ErrUnexpectedEOF
	}
	return n, err
}
func (t *truncBody) Close() error { return nil }

func clamp(rs []Range, size int64) []Range {
	var out []Range
	for _, x := range rs {
		if x.B < 0 || x.B >= size || x.E < x.B {
			continue
		}
		if x.E >= size {
			x.E = size - 1
		}
		out = append(out, x)
	}
	return out
}

func simple(req *http.Request, status int, body []byte) *http.Response {
	return &http.Response{
		StatusCode: status, Status: fmt.Sprintf("%d %s", status, http.StatusText(status)),
		Proto: "HTTP/1.1", ProtoMajor: 1, ProtoMinor: 1,
		Header: http.Header{}, Body: io.NopCloser(bytes.NewReader(body)), ContentLength: int64(len(body)), Request: req,
	}
}

func single(req *http.Request, blob []byte, x Range) *http.Response {
	resp := simple(req, http.StatusPartialContent, blob[x.B:x.E+1])
	resp.Header.Set("Content-Type", "application/octet-stream")
	resp.Header.Set("Content-Range", fmt.Sprintf("bytes %d-%d/%d", x.B, x.E, len(blob)))
	resp.Header.Set("Content-Length", strconv.FormatInt(x.E-x.B+1, 10))
	return resp
}

// Boundary is the multipart boundary used by the registry.
const Boundary = "memregboundary7d3f"

func multipartResp(req *http.Request, blob []byte, rs []Range) *http.Response {
	var buf bytes.Buffer
	for _, x := range rs {
		fmt.Fprintf(&buf, "\r\n--%s\r\n", Boundary)
		h := textproto.MIMEHeader{}
		h.Set("Content-Type", "application/octet-stream")
		h.Set("Content-Range", fmt.Sprintf("bytes %d-%d/%d", x.B, x.E, len(blob)))
		for k, v := range h {
			fmt.Fprintf(&buf, "%s: %s\r\n", k, v[0])
		}
		buf.WriteString("\r\n")
		buf.Write(blob[x.B : x.E+1])
	}
	fmt.Fprintf(&buf, "\r\n--%s--\r\n", Boundary)
	resp := simple(req, http.StatusPartialContent, buf.Bytes())
	resp.Header.Set("Content-Type", "multipart/byteranges; boundary="+Boundary)
	return resp
}

// Hosts returns a source.RegistryHosts that sends everything for any reference to this
// registry under the given host names (first = primary), plain transport (no retries).
func (r *Registry) Hosts(hosts ...string) source.RegistryHosts {
	return func(ref reference.Spec) ([]docker.RegistryHost, error) {
		var out []docker.RegistryHost
		hs := hosts
		if len(hs) == 0 {
			hs = []string{ref.Hostname()}
		}
		to := r.ClientTimeout
		if to == 0 {
			to = time.Second
		}
		for _, h := range hs {
			out = append(out, docker.RegistryHost{
				Client:       &http.Client{Transport: r, Timeout: to},
				Host:         h,
				Scheme:       "https",
				Path:         "/v2",
				Capabilities: docker.HostCapabilityPull | docker.HostCapabilityResolve,
			})
		}
		return out, nil
	}
}

// BlobRequests filters the log to requests that address digest (GET with Range only when ranged).
func BlobRequests(log []Req, dgst string) []Req {
	var out []Req
	for _, q := range log {
		if q.Digest == dgst {
			out = append(out, q)
		}
	}
	return out
}

var _ = context.Background
