// C12 — a mounted layer stays usable; a released layer gives back all its resources.
package c12layerlife

import (
	"bytes"
	"context"
	"fmt"
	"net/http"
	"sort"
	"sync"
	"sync/atomic"
	"testing"
	"time"

	"github.com/containerd/stargz-snapshotter/fs/layer"
	digest "github.com/opencontainers/go-digest"
	ocispec "github.com/opencontainers/image-spec/specs-go/v1"
	"pgregory.net/rapid"
	"verifharness/lib/esgzbuild"
	"verifharness/lib/esgzref"
	"verifharness/lib/fullstack"
	"verifharness/lib/fusedrive"
	"verifharness/lib/memreg"
	"verifharness/lib/pbt"
	"verifharness/lib/tarmodel"
)

type Step struct {
	Op     string `json:"op"` // resolve read done close sleep down up check refresh failresolve
	Layer  int    `json:"layer,omitempty"`
	K      int    `json:"k,omitempty"`      // resolve: number of concurrent Resolve calls
	Holder int    `json:"holder,omitempty"` // index into the list of holders created so far (mod len)
	File   int    `json:"file,omitempty"`
	// resolve: the cached instance's connectivity check (if it reaches the registry) is answered with an error once
	FailCheck bool `json:"fail_check,omitempty"`
}

type Case struct {
	Layers int              `json:"layers"`
	Store  string           `json:"store"`
	Cfg    fullstack.Config `json:"config"`
	Steps  []Step           `json:"steps"`
}

func gen(t *rapid.T) Case {
	c := Case{Layers: rapid.IntRange(1, 3).Draw(t, "layers"), Store: rapid.SampledFrom([]string{"memory", "db"}).Draw(t, "store")}
	c.Cfg = fullstack.Config{Store: c.Store, FSCache: "directory", HTTPCache: "directory", LRUEntries: rapid.IntRange(1, 3).Draw(t, "lru"), MaxFds: rapid.IntRange(1, 3).Draw(t, "fds"),
		Direct: rapid.Bool().Draw(t, "direct"), SyncAdd: true, RegChunk: rapid.SampledFrom([]int64{0, 512, 100, 64}).Draw(t, "regchunk"), TTLSec: 1, Opaque: "trusted"}
	if rapid.IntRange(0, 2).Draw(t, "longttl") == 0 {
		// the connectivity check of a cached layer reaches the registry after one quiet second; the layer stays cached for three
		c.Cfg.TTLSec, c.Cfg.ValidSec = 3, 1
	}
	sleeps := 0
	n := rapid.IntRange(3, 14).Draw(t, "nsteps")
	for i := 0; i < n; i++ {
		s := Step{Op: rapid.SampledFrom([]string{"resolve", "resolve", "resolve", "read", "read", "read", "done", "close", "sleep", "sleep", "down", "up", "check", "refresh", "badrefresh", "failresolve"}).Draw(t, "op")}
		if s.Op == "sleep" {
			if sleeps >= 2 {
				s.Op = "read"
			} else {
				sleeps++
			}
		}
		s.Layer = rapid.IntRange(0, c.Layers-1).Draw(t, "layer")
		s.K = rapid.SampledFrom([]int{1, 1, 2, 3}).Draw(t, "k")
		s.Holder = rapid.IntRange(0, 11).Draw(t, "holder")
		s.File = rapid.IntRange(0, 5).Draw(t, "file")
		if s.Op == "resolve" && c.Cfg.ValidSec > 0 && sleeps < 2 && rapid.IntRange(0, 2).Draw(t, "failcheck") == 0 {
			// a quiet second, then the cached instance fails its connectivity check exactly when it is asked for again
			c.Steps = append(c.Steps, s, Step{Op: "pause"})
			sleeps++
			s = Step{Op: "resolve", Layer: s.Layer, K: 1, FailCheck: true, Holder: s.Holder}
		}
		c.Steps = append(c.Steps, s)
		if s.Op == "resolve" && rapid.IntRange(0, 3).Draw(t, "refreshfirst") == 0 {
			// the newest holder's layer is refreshed against a bad source before it has read anything
			c.Steps = append(c.Steps, Step{Op: "badrefresh", Holder: -1, File: rapid.IntRange(0, 5).Draw(t, "extra")},
				Step{Op: "read", Holder: -1, File: rapid.IntRange(0, 5).Draw(t, "bfile")}, Step{Op: "read", Holder: -1, File: rapid.IntRange(0, 5).Draw(t, "bfile2")})
		}
		if (s.Op == "sleep" || s.Op == "close") && rapid.IntRange(0, 3).Draw(t, "readafter") > 0 {
			// what the property is about: a holder reads after its cache entry expired / was evicted by somebody else
			c.Steps = append(c.Steps, Step{Op: "read", Holder: rapid.IntRange(0, 11).Draw(t, "rholder"), File: rapid.IntRange(0, 5).Draw(t, "rfile")})
		}
	}
	return c
}

type layerData struct {
	blob  []byte
	desc  ocispec.Descriptor
	toc   digest.Digest
	files map[string][]byte
	names []string
}

type instance struct { // model of one resolved layer object
	layer   int
	holders int
	cached  bool      // still in the resolver's cache
	added   time.Time // when it entered the cache (expiry is added + TTL)
	fuzzy   bool      // the model no longer knows which object is cached for this layer, nor since when
}

type holder struct {
	l        layer.Layer
	fs       *fusedrive.FS
	inst     *instance
	layer    int
	released bool
}

func buildLayer(i int) (*esgzbuild.Built, error) {
	a := tarmodel.Archive{Entries: []tarmodel.Entry{
		{Name: "d/", Type: "dir", Mode: 0o755, MTime: 1600000000},
		{Name: "d/a", Type: "reg", Mode: 0o644, MTime: 1600000000, Size: 40 + i, Seed: uint32(10 + i)},
		{Name: "b", Type: "reg", Mode: 0o644, MTime: 1600000000, Size: 7, Seed: uint32(20 + i)},
		{Name: "c", Type: "reg", Mode: 0o644, MTime: 1600000000, Size: 130, Seed: uint32(30 + i)},
	}}
	tb, err := a.Tar()
	if err != nil {
		return nil, err
	}
	return esgzbuild.Build(tb, esgzbuild.Opts{Compression: "gzip", Level: 1, ChunkSize: 32, Workers: 1})
}

func tocFetches(log []memreg.Req, from int, dgst string) int {
	// the footer/TOC read of a fresh instance is the first ranged fetch for that blob after `from`
	n := 0
	for _, q := range log[from:] {
		if q.Digest == dgst && q.Header.Get("Accept-Encoding") == "identity" {
			n++
		}
	}
	return n
}

func run(c Case, ev *pbt.Ev) error {
	st, err := fullstack.New(c.Cfg)
	if err != nil {
		return pbt.Inconclusive("stack: %v", err)
	}
	defer st.Close()
	ttl := time.Duration(c.Cfg.TTLSec) * time.Second
	var failNextCheck atomic.Bool
	badMirror := memreg.New()
	st.Reg.Decide = func(q *memreg.Req) memreg.Action {
		if failNextCheck.Load() && q.Method == "GET" && len(q.Ranges) == 1 && q.Ranges[0] == (memreg.Range{B: 0, E: 1}) && failNextCheck.CompareAndSwap(true, false) {
			return memreg.Action{Kind: "status", Status: 500}
		}
		if q.Host == "bad-mirror.example" {
			return memreg.Action{Kind: "raw", Raw: func(req *http.Request, _ []byte) (*http.Response, error) { return badMirror.RoundTrip(req) }}
		}
		return memreg.Action{}
	}
	var lds []*layerData
	for i := 0; i < c.Layers; i++ {
		res, err := buildLayer(i)
		if err != nil {
			return pbt.Inconclusive("builder: %v", err)
		}
		p, err := esgzref.Parse(res.Blob, nil)
		if err != nil {
			return pbt.Inconclusive("%v", err)
		}
		fl, err := p.Files()
		if err != nil {
			return pbt.Inconclusive("%v", err)
		}
		ld := &layerData{blob: res.Blob, desc: st.AddBlob(res.Blob, nil), toc: digest.Digest(res.TOCDigest), files: map[string][]byte{}}
		for n, f := range fl {
			if len(f.Content) > 0 && n[0] != '.' {
				ld.files[n] = f.Content
				ld.names = append(ld.names, n)
			}
		}
		sort.Strings(ld.names)
		lds = append(lds, ld)
	}
	var (
		holders []*holder
		cached  = map[int]*instance{} // layer -> instance currently in the resolver cache (model)
		insts   []*instance
		down    bool
		// when the model last dropped a layer from the cache because of its age (the real timer may fire later)
		lastExpired = map[int]time.Time{}
	)
	expire := func(now time.Time) {
		for li, in := range cached {
			if in.cached && now.Sub(in.added) > ttl+5*time.Second {
				in.cached = false
				lastExpired[li] = now
				delete(cached, li)
			}
		}
	}
	live := func() int {
		n := 0
		for _, in := range insts {
			if in.cached || in.holders > 0 {
				n++
			}
		}
		return n
	}
	maybeLive := func(now time.Time) (lo, hi int) {
		// instances whose expiry is within the uncertainty window count as "maybe"
		for _, in := range insts {
			switch {
			case in.holders > 0:
				lo++
				hi++
			case in.cached && now.Sub(in.added) < ttl-100*time.Millisecond:
				lo++
				hi++
			case in.cached:
				hi++
			}
		}
		return
	}
	checkRead := func(i int, h *holder, file int, must bool) error {
		ld := lds[h.layer]
		name := ld.names[file%len(ld.names)]
		n, _, errno := h.fs.Walk(name)
		var got []byte
		if errno == 0 {
			fh, e2 := h.fs.Open(n)
			errno = e2
			if e2 == 0 {
				buf := make([]byte, len(ld.files[name])+2)
				k, e3 := fh.Read(buf, 0)
				fh.Release()
				errno, got = e3, buf[:k]
			}
		}
		if errno != 0 {
			if must {
				return pbt.Violf("held-layer-unusable", "step %d: holder %d of layer %d has not released it, registry reachable=%v, yet reading %q failed with errno %d", i, indexOf(holders, h), h.layer, !down, name, errno)
			}
			return nil
		}
		if !bytes.Equal(got, ld.files[name]) {
			return pbt.Violf("read-bytes", "step %d: layer %d file %q read returns wrong bytes (held=%v)", i, h.layer, name, !h.released)
		}
		return nil
	}
	for i, s := range c.Steps {
		now := time.Now()
		expire(now)
		switch s.Op {
		case "resolve":
			failNextCheck.Store(s.FailCheck)
			ld := lds[s.Layer]
			logFrom := st.Reg.LogLen()
			fsBefore, httpBefore := st.CacheDirs()
			ls := make([]layer.Layer, s.K)
			errs := make([]error, s.K)
			var wg sync.WaitGroup
			for k := 0; k < s.K; k++ {
				wg.Add(1)
				go func(k int) { defer wg.Done(); ls[k], errs[k] = st.Resolve(ld.desc) }(k)
			}
			wg.Wait()
			if s.FailCheck && !failNextCheck.Swap(false) {
				ev.Class("cached-layer-failed-its-check-during-resolve")
			}
			ok := 0
			for k := range ls {
				if errs[k] != nil {
					if !down && !s.FailCheck { // (the scripted error may also hit a fresh resolution's own probe)
						return pbt.Violf("resolve-failed", "step %d: Resolve of layer %d failed with a healthy registry: %v", i, s.Layer, errs[k])
					}
					continue
				}
				ok++
			}
			if ok == 0 {
				ev.Class("resolve-refused-registry-down")
				if prev := cached[s.Layer]; prev != nil && c.Cfg.ValidSec > 0 {
					prev.fuzzy = true // its connectivity check may have failed and dropped it from the cache
				}
				continue
			}
			// which instance do they share?  The model knows for sure only outside an uncertainty window around the
			// expiry timer; inside it the observation (did a new fscache directory appear?) decides.
			fsAfter, httpAfter := st.CacheDirs()
			created := fsAfter - fsBefore
			prev := cached[s.Layer]
			sure := "fresh" // no instance of this layer can be in the cache
			if prev != nil && prev.cached {
				age := now.Sub(prev.added)
				switch {
				case prev.fuzzy || s.FailCheck:
					sure = "either"
				case age < ttl-200*time.Millisecond:
					sure = "hit"
				case age < ttl+5*time.Second:
					sure = "either"
				}
			} else if last, ok := lastExpired[s.Layer]; ok && now.Sub(last) < 5*time.Second {
				sure = "either"
			}
			var in *instance
			switch {
			case sure == "hit" && created != 0:
				return pbt.Violf("cache-hit-created-instance", "step %d: layer %d was cached (age %v, TTL %v) but resolving it again created %d new fscache directories", i, s.Layer, now.Sub(prev.added), ttl, created)
			case sure == "fresh" && created != 1:
				return pbt.Violf("instances-not-shared", "step %d: %d concurrent Resolve calls of the uncached layer %d created %d fscache directories (want exactly 1: one shared instance)", i, s.K, s.Layer, created)
			case created > 1 || created < 0:
				return pbt.Violf("instances-not-shared", "step %d: %d concurrent Resolve calls of layer %d changed the number of fscache directories by %d", i, s.K, s.Layer, created)
			case created == 0 && prev != nil:
				in = prev
				in.cached = true
				if s.FailCheck {
					in.fuzzy = true // an unheld instance may have been replaced by a new one (one directory gone, one new)
				}
				cached[s.Layer] = in
			default:
				if prev != nil {
					prev.cached = false
				}
				in = &instance{layer: s.Layer, cached: true, added: now}
				insts = append(insts, in)
				cached[s.Layer] = in
				if httpAfter-httpBefore > 1 {
					return pbt.Violf("instances-not-shared", "step %d: %d concurrent Resolve calls of layer %d created %d httpcache directories", i, s.K, s.Layer, httpAfter-httpBefore)
				}
				ev.ClassIf(s.K > 1, "concurrent-resolve-fresh")
			}
			_ = logFrom
			for k := range ls {
				if errs[k] != nil {
					continue
				}
				if err := ls[k].Verify(ld.toc); err != nil {
					return pbt.Violf("verify-failed", "step %d: %v", i, err)
				}
				root, err := ls[k].RootNode(0)
				if err != nil {
					return pbt.Violf("rootnode-failed", "step %d: %v", i, err)
				}
				in.holders++
				holders = append(holders, &holder{l: ls[k], fs: fusedrive.New(root, false), inst: in, layer: s.Layer})
			}
		case "failresolve":
			fsBefore, _ := st.CacheDirs()
			st.Reg.SetDown(true)
			l, err := st.Resolve(lds[s.Layer].desc)
			st.Reg.SetDown(down)
			if prev := cached[s.Layer]; prev != nil && c.Cfg.ValidSec > 0 {
				// with a short check interval the cached instance's connectivity check reaches the (unreachable)
				// registry and the instance may have been dropped from the cache
				prev.fuzzy = true
			}
			if err == nil {
				// legitimate: the blob and its chunks can still be in the local caches.  If that created a new
				// instance it now sits in the resolver cache.
				if fsAfter, _ := st.CacheDirs(); fsAfter > fsBefore {
					if prev := cached[s.Layer]; prev != nil {
						prev.cached = false
					}
					in := &instance{layer: s.Layer, cached: true, added: now}
					insts = append(insts, in)
					cached[s.Layer] = in
				}
				l.Done()
			}
			ev.Class("resolve-with-registry-failure")
		case "read":
			if len(holders) == 0 {
				ev.Skipped++
				continue
			}
			h := holders[((s.Holder%len(holders))+len(holders))%len(holders)]
			if h.released {
				// stale handle: must fail cleanly or return correct bytes, never crash
				if err := checkRead(i, h, s.File, false); err != nil {
					return err
				}
				ev.Class("read-through-released-handle")
				continue
			}
			expired := !h.inst.cached
			// a held layer serves reads regardless of expiry; with the registry down only what is cached can be served
			if err := checkRead(i, h, s.File, !down); err != nil {
				return err
			}
			ev.ClassIf(expired, "read-after-expiry-or-eviction")
		case "done", "close":
			if len(holders) == 0 {
				ev.Skipped++
				continue
			}
			h := holders[((s.Holder%len(holders))+len(holders))%len(holders)]
			if s.Op == "done" {
				h.l.Done()
			} else {
				h.l.Close()
			}
			if !h.released {
				h.released = true
				h.inst.holders--
			} else {
				ev.Class("double-release")
			}
			if s.Op == "close" && h.inst.cached && cached[h.layer] == h.inst {
				h.inst.cached = false
				delete(cached, h.layer)
				ev.ClassIf(h.inst.holders > 0, "evicting-release-with-other-holders")
			}
		case "pause":
			// long enough for the next connectivity check to reach the registry, too short for the TTL
			time.Sleep(time.Duration(c.Cfg.ValidSec)*time.Second + 200*time.Millisecond)
		case "sleep":
			time.Sleep(ttl + 400*time.Millisecond)
			ev.Class("ttl-expiry")
		case "down":
			down = true
			st.Reg.SetDown(true)
		case "up":
			down = false
			st.Reg.SetDown(false)
		case "check":
			if len(holders) == 0 {
				ev.Skipped++
				continue
			}
			h := holders[((s.Holder%len(holders))+len(holders))%len(holders)]
			if err := h.l.Check(); err != nil && !h.released && !down {
				return pbt.Violf("check-failed", "step %d: Check on a held layer with a healthy registry: %v", i, err)
			}
		case "badrefresh":
			// a connectivity refresh that is answered by a source serving another blob (a broken mirror): whether it
			// is refused or not, the holder's layer keeps serving reads afterwards (checked by the read steps)
			if len(holders) == 0 {
				ev.Skipped++
				continue
			}
			h := holders[((s.Holder%len(holders))+len(holders))%len(holders)]
			ld := lds[h.layer]
			// (the mirror keeps answering with its own, shorter blob for as long as anybody asks it)
			badMirror.AddBlob(ld.desc.Digest.String(), ld.blob[:len(ld.blob)/2+s.File])
			h.l.Refresh(context.Background(), st.Reg.Hosts("bad-mirror.example"), st.Ref, ld.desc)
			ev.Class("refresh-answered-with-other-blob")
		case "refresh":
			if len(holders) == 0 {
				ev.Skipped++
				continue
			}
			h := holders[((s.Holder%len(holders))+len(holders))%len(holders)]
			if err := h.l.Refresh(context.Background(), st.Reg.Hosts(), st.Ref, lds[h.layer].desc); err != nil && !h.released && !down {
				return pbt.Violf("refresh-failed", "step %d: Refresh on a held layer with a healthy registry: %v", i, err)
			}
		}
		ev.Steps++
	}
	// release everything, let everything expire: all resources must be given back
	st.Reg.SetDown(false)
	for _, h := range holders {
		if !h.released {
			h.l.Done()
			h.released = true
			h.inst.holders--
		}
	}
	deadline := time.Now().Add(20 * time.Second)
	for {
		fsd, httpd := st.CacheDirs()
		db := st.DBBuckets()
		if fsd == 0 && httpd == 0 && db <= 0 {
			break
		}
		if time.Now().After(deadline) {
			return pbt.Violf("resources-not-released", "every holder released every layer and the cache TTL (%v) passed 20 s ago: %d fscache dirs, %d httpcache dirs, %d metadata buckets remain", ttl, fsd, httpd, db)
		}
		time.Sleep(100 * time.Millisecond)
	}
	// and a later request resolves afresh and works
	l, err := st.Resolve(lds[0].desc)
	if err != nil {
		return pbt.Violf("resolve-afresh-failed", "%v", err)
	}
	if err := l.Verify(lds[0].toc); err != nil {
		return pbt.Violf("resolve-afresh-failed", "verify: %v", err)
	}
	root, err := l.RootNode(0)
	if err != nil {
		return pbt.Violf("resolve-afresh-failed", "root: %v", err)
	}
	hh := &holder{l: l, fs: fusedrive.New(root, false), layer: 0, inst: &instance{}}
	if err := checkRead(len(c.Steps), hh, 0, true); err != nil {
		return err
	}
	l.Close()
	_ = live
	_ = maybeLive
	ev.Class("store-" + c.Store)
	ev.NTIf(ev.Has("read-after-expiry-or-eviction") || ev.Has("evicting-release-with-other-holders"))
	return nil
}

func indexOf(hs []*holder, h *holder) int {
	for i, x := range hs {
		if x == h {
			return i
		}
	}
	return -1
}

func TestProp_Lifecycle(t *testing.T) {
	pbt.Run(t, pbt.Options{Prop: "C12", Name: "Lifecycle", Quick: 280, Thorough: 1400, Current: true, Timeout: 300 * time.Second,
		Rule: "rapid: 1-3 layers, resolver cache TTL 1 s, directory caches, memory or DB metadata store; 3-14 steps of resolve(layer, 1-3 concurrent calls) / read(holder, file) / Done / Close (evicting release) / sleep > TTL (max 2) / registry down / up / Check / Refresh / Resolve with the registry failing; " +
			"oracle: a holder that has not released its layer reads correct bytes whatever expired, was evicted by another holder, failed or refreshed meanwhile; concurrent resolves of an uncached layer create exactly one fscache directory (one shared instance); a cache hit creates none; reads through released handles fail cleanly or return correct bytes; " +
			"after all holders released and the TTL passed every fscache / httpcache directory and metadata bucket disappears within 20 s, and a new Resolve works. non-trivial = a holder read after its cache entry expired or was evicted by somebody else",
	}, gen, run)
}

var _ = fmt.Sprint
