#!/usr/bin/env python3
"""mkmut.py ID NAME FILE OLD NEW [FILE OLD NEW ...] — make a hand mutant of /repo as a diff under /verif/mutants/ID/NAME.diff (repo left clean)."""
import subprocess, sys, os
pid, name = sys.argv[1], sys.argv[2]
rest = sys.argv[3:]
assert subprocess.run(["git", "-C", "/repo", "status", "--porcelain"], capture_output=True, text=True).stdout.strip() == "", "repo dirty"
for i in range(0, len(rest), 3):
    f, old, new = rest[i:i+3]
    p = os.path.join("/repo", f)
    s = open(p).read()
    assert s.count(old) == 1, "pattern occurs %d times in %s" % (s.count(old), f)
    open(p, "w").write(s.replace(old, new))
d = subprocess.run(["git", "-C", "/repo", "diff"], capture_output=True, text=True).stdout
os.makedirs("/verif/mutants/" + pid, exist_ok=True)
open("/verif/mutants/%s/%s.diff" % (pid, name), "w").write(d)
subprocess.run(["git", "-C", "/repo", "checkout", "--", "."], check=True)
print("wrote /verif/mutants/%s/%s.diff (%d lines)" % (pid, name, d.count("\n")))
