#!/bin/bash
# runmut.sh ID DIFF [tier] — apply a mutant/seeded diff to /repo, run the check, always revert.
set -u
id=$1; diff=$(readlink -f "$2"); tier=${3:-quick}
[ -z "$(git -C /repo status --porcelain)" ] || { echo "repo dirty"; exit 9; }
git -C /repo apply "$diff" || { echo "patch does not apply"; exit 9; }
trap 'git -C /repo checkout -- . ; git -C /repo clean -fdq' EXIT
cd /verif && ./check "$id" --tier "$tier" 2>&1 | tail -${TAIL:-12}
echo "rc=${PIPESTATUS[0]}"
