#!/bin/bash
# mkregress.sh ID [universe] — run the check against the "revert the fixes" mutant (mutants/ID/m0-*.diff) in a scratch
# universe and keep one minimal failing case per violation kind as a plain regression case under regress/ID/.
id=$1; u=/tmp/u-${2:-dev}
m=$(ls /verif/mutants/$id/m0-*.diff 2>/dev/null | head -1); [ -n "$m" ] || { echo "no m0 for $id"; exit 1; }
rsync -a --delete --exclude .work --exclude .git --exclude go.mod /verif/ $u/verif/
git -C $u/repo checkout -q --detach $(git -C /repo rev-parse HEAD); git -C $u/repo checkout -- .; git -C $u/repo clean -fdq
git -C $u/repo apply $m || exit 1
(cd $u/verif && VERIF_REPO=$u/repo ./check $id --tier quick > /tmp/mkregress-$id.log 2>&1)
git -C $u/repo checkout -- .; git -C $u/repo clean -fdq
python3 - $id $u <<'P'
import json,glob,os,re,sys,shutil
pid,u=sys.argv[1:3]
seen={}
for f in sorted(glob.glob('%s/verif/.work/%s/replays/%s-*.json'%(u,pid,pid))):
    try: d=json.load(open(f))
    except Exception: continue
    if 'case' not in d: continue
    m=re.search(r'violation\[([\w-]+)\]',d.get('error','')) or re.match(r'\s*([\w-]+):',d.get('error',''))
    kind=m.group(1) if m else 'failure'
    key=(d.get('test'),kind)
    if key in seen: continue
    seen[key]=f
os.makedirs('/verif/regress/'+pid,exist_ok=True)
for (t,k),f in list(seen.items())[:4]:
    dst='/verif/regress/%s/%s-fixed-%s.json'%(pid,t,k)
    shutil.copy(f,dst); print('kept',dst)
P
