#!/usr/bin/env python3
"""seedconfirm.py ID K [NAME] — confirm a sub-agent's seeded change in its scratch worktree /tmp/seed-ID:
 demo passes on HEAD, patch applies and builds, demo fails with the patch, the touched packages' own tests
 still pass with the patch.  On success copies it to /verif/seeded/ID-K/ and writes confirmed.json."""
import json, os, re, shutil, subprocess, sys
pid, k = sys.argv[1], sys.argv[2]
src = "/tmp/seed-%s-out/%s" % (pid, k)
wt = "/tmp/seed-%s" % pid
meta = json.load(open(src + "/meta.json"))
env = dict(os.environ, GOFLAGS="-mod=mod", GOPROXY="off", GOSUMDB="off", GOTOOLCHAIN="local")
def sh(cmd, cwd=wt, timeout=1800):
    p = subprocess.run(cmd, shell=True, cwd=cwd, env=env, capture_output=True, text=True, timeout=timeout)
    return p.returncode, (p.stdout + p.stderr)[-3000:]
def clean():
    sh("git checkout -- . && git clean -fdq")
clean()
demo = meta["demo"]
place = None
for tok in re.findall(r"[\w./-]+", demo["place_in"].replace(wt + "/", "")):
    tok = tok.strip("/.") if tok not in (".",) else tok
    if tok and os.path.isdir(os.path.join(wt, tok)):
        place = tok
        break
    if tok.endswith(".go") and os.path.isdir(os.path.join(wt, os.path.dirname(tok))):
        place = os.path.dirname(tok)
        break
if len(sys.argv) > 3:
    place = sys.argv[3]
assert place, "cannot find the demo's package directory in %r" % demo["place_in"]
dst = os.path.join(wt, place, "zz_seeded_demo_test.go")
patch = open(src + "/patch.diff").read()
files = sorted(set(re.findall(r"^\+\+\+ b/(\S+)", patch, re.M)))
assert all(not f.endswith("_test.go") for f in files), "patch touches tests"
def module_of(path):
    d = os.path.dirname(os.path.join(wt, path))
    while not os.path.exists(os.path.join(d, "go.mod")):
        d = os.path.dirname(d)
    return d
def run_demo():
    mod = module_of(os.path.join(place, "x.go"))
    rel = "./" + os.path.relpath(os.path.join(wt, place), mod)
    names = "|".join(re.findall(r"^func (Test\w+)\(", open(dst).read(), re.M))
    extra = " -test.root" if "-test.root" in demo.get("run", "") else ""
    return sh("go1.26.8 test -vet=off -count=1 -run '^(%s)$' %s%s" % (names, rel, extra), cwd=mod)
res = {"property": pid, "k": k, "files": files}
shutil.copy(src + "/demo_test.go", dst)
rc, out = run_demo(); res["demo_on_head_rc"] = rc
if rc != 0:
    print("DEMO FAILS ON HEAD\n" + out); clean(); sys.exit(1)
rc, out = sh("git apply %s/patch.diff" % src)
if rc != 0:
    print("PATCH DOES NOT APPLY\n" + out); clean(); sys.exit(1)
rc, out = run_demo(); res["demo_with_patch_rc"] = rc; res["demo_with_patch_tail"] = out[-1200:]
if rc == 0:
    print("DEMO PASSES WITH PATCH"); clean(); sys.exit(1)
os.remove(dst)
pk = {}
for f in files:
    mod = module_of(f)
    pk.setdefault(mod, set()).add("./" + os.path.relpath(os.path.dirname(os.path.join(wt, f)), mod))
res["package_tests"] = {}
ok = True
failing = {}
def fails(mod, pkgs):
    p = subprocess.run("go1.26.8 test -vet=off -count=1 -timeout 25m %s 2>&1 | grep -E '^(--- FAIL|FAIL|ok|panic)' | sed -E 's/\\([0-9.]+s\\)//; s/[0-9.]+s$//'" % " ".join(sorted(pkgs)), shell=True, cwd=mod, env=env, capture_output=True, text=True, timeout=2400)
    return sorted(l.strip() for l in p.stdout.splitlines() if "FAIL" in l or "panic" in l)
for mod, pkgs in pk.items():
    rc, out = sh("go1.26.8 build ./... && go1.26.8 test -vet=off -count=1 -timeout 25m %s" % " ".join(sorted(pkgs)), cwd=mod, timeout=2400)
    res["package_tests"][os.path.relpath(mod, wt) + ":" + ",".join(sorted(pkgs))] = rc
    if rc != 0:
        failing[mod] = (pkgs, fails(mod, pkgs))
clean()
for mod, (pkgs, f_patch) in failing.items():
    f_head = fails(mod, pkgs)   # e.g. tests that need the network fail on the unchanged tree too
    if f_head == f_patch and f_head:
        res["package_tests"][os.path.relpath(mod, wt) + ":same-failures-as-on-unchanged-tree"] = f_head
    else:
        ok = False; print("EXISTING TESTS FAIL WITH PATCH in", mod, pkgs, "with patch:", f_patch, "on HEAD:", f_head)
if not ok:
    sys.exit(1)
out = "/verif/seeded/%s-%s" % (pid, k)
os.makedirs(out, exist_ok=True)
for f in ("patch.diff", "demo_test.go", "meta.json"):
    shutil.copy(src + "/" + f, out + "/" + f)
json.dump(res, open(out + "/confirmed.json", "w"), indent=1)
print("CONFIRMED", pid, k, meta.get("title"), files)
