#!/bin/bash
# universe.sh NAME — a scratch copy of /verif (without .work) plus a scratch worktree of /repo's HEAD, so that
# mutants / seeded changes can be run without touching /repo's working tree:
#   /tmp/u-NAME/verif  /tmp/u-NAME/repo ;  run checks there with  VERIF_REPO=/tmp/u-NAME/repo ./check ...
set -e
u=/tmp/u-$1
rm -rf $u/verif; mkdir -p $u
[ -d $u/repo ] && git -C /repo worktree remove --force $u/repo
git -C /repo worktree add --detach $u/repo HEAD >/dev/null
rsync -a --exclude .work --exclude .git /verif/ $u/verif/
sed -i "s#=> /repo#=> $u/repo#" $u/verif/harness/go.mod
echo $u
