#!/usr/bin/env python3
"""Summarise violation replays of a property: kind + first /repo frame."""
import json,glob,sys,re,collections
pid=sys.argv[1]
c=collections.Counter()
ex={}
for f in sorted(glob.glob('/verif/.work/%s/replays/*.json'%pid)):
    try: d=json.load(open(f))
    except Exception: continue
    e=d.get('error','')
    head=e.split('\n')[0][:150]
    m=re.findall(r'(/repo/\S+:\d+)',e)
    key=(d.get('test'),head,m[0] if m else '')
    c[key]+=1; ex[key]=f
for k,n in c.most_common():
    print(n,k,ex[k])
