#!/usr/bin/env python3
"""Regenerates /verif/MANIFEST.json from the claims table below + checks.json."""
import json, subprocess
R='/verif'
props=[json.loads(l) for l in open(R+'/properties.jsonl')]
conf=json.load(open(R+'/checks.json'))
SEARCH="Search over generated cases against an explicit oracle; it reports 'held on everything explored', never absence of violations. "
claims={
"C03":("exploration",SEARCH+"Generated tar archives x build options; round trip through two independent readers (stdlib untar of the decompressed stream; documented footer/TOC/chunk parse written from docs/estargz.md), lossless byte equality and a workers=k vs 1 differential.",
  "archive/tar, compress/gzip, klauspost zstd decoder, sha256 trusted; generated archives never duplicate hardlink names/targets",
  "property-based round-trip + differential testing (rapid) with an independent format reader","3/C03"),
"C10":("exploration",SEARCH+"Generated operation histories: sequential against an exact reference model (membership, LRU recency, holders, finalised set) after every step; concurrent programs with real timers under -race against invariants true for every linearisation.",
  "reference model written from the statement; groupcache LRU recency from its docs; Go scheduler picks interleavings in the concurrent stage",
  "stateful model-based property testing (rapid) + generated concurrent programs under the race detector","3/C10"),
"C14":("exploration",SEARCH+"Generated archives x prioritized lists (all spellings, directories, hardlinks, root, missing, implicit parents); the output order and TOC offsets are judged by a validity predicate derived from the statement, not by a copy of the builder.",
  "stdlib tar/gzip/zstd trusted; dangling hardlinks not generated",
  "property-based testing (rapid) with a validity-predicate oracle over builder output","3/C14"),
"C20":("exploration",SEARCH+"Generated manifests (repeated digests, URL lists up to the label size limit, all layer media types) through both pull-side handlers and both mount-side readers, plus generated label mutations; round-trip and rejection oracles.",
  "containerd's labels.Validate / images.IsLayerType are the reference; URLs are comma-free; children are config + layers",
  "property-based round-trip testing (rapid) with mutation of the intermediate representation","3/C20"),
}
extra = {}
try:
    extra = json.load(open(R+'/tools/claims_extra.json'))
except OSError:
    pass
for k,v in extra.items():
    claims[k]=tuple(v)
hooks=subprocess.run(["git","-C","/repo","log","--format=%h %s","d7b0125..HEAD"],capture_output=True,text=True).stdout.splitlines()
hook_commits=[l.split()[0] for l in hooks if l.split(' ',1)[1].startswith('hook')]
m={"version":1,"setup_cmd":"./setup.sh",
 "hooks":{"guard":"verif","enable":"-tags verif: the harness module /verif/harness replaces the stargz-snapshotter modules by /repo, so every check compiles /repo's working tree with the tag on",
  "baseline_off_cmd":"for m in . estargz ipfs cmd; do (cd /repo/$m && GOTOOLCHAIN=local GOPROXY=off GOFLAGS= go1.26.8 test -json -vet=off -count=1 -timeout 25m ./...); done",
  "source_commits":hook_commits,"add_only":True},
 "engines":[{"name":"pbt-harness","path":"/verif/harness","serves_properties":sorted(k for k in claims if k in conf),"kind_free_text":"Go module: rapid v1.3.0 generators + explicit oracles (reference models, independent format reader, differential, round trip), one package per property; python driver ./check shards across cores, replays saved cases, merges measured evidence"}],
 "checks":[],"notes":"Design, per-property oracles, findings and limits: DESIGN.md. Known/fixed findings: known_findings.json. Hand mutants: mutants/, sub-agent seeded changes: seeded/.","not_applicable":[]}
for p in props:
    i=p['id']
    if i in claims and i in conf:
        lv,txt,note,tech,ref=claims[i]
        m["checks"].append({"property_id":i,"quick_cmd":"./check %s --tier quick"%i,"thorough_cmd":"./check %s --tier thorough"%i,"evidence_file":"/verif/evidence/%s.json"%i,
          "replay_cmd_template":"./check %s --replay {path}"%i,"engine":"pbt-harness","level_claimed":{"category":lv,"text":txt,"design_ref":"DESIGN.md section "+ref},"level_note":note,"technique":tech})
    else:
        m["not_applicable"].append({"property_id":i,"reason":"check designed (DESIGN.md section 3/%s) but not built yet; will be claimed once its check is committed"%i})
json.dump(m,open(R+'/MANIFEST.json','w'),indent=1)
print("claimed:",[c["property_id"] for c in m["checks"]])
