#!/bin/bash
# seedrun.sh ID K [tier] [universe] — confirm the sub-agent's change K for property ID (in its scratch worktree),
# then run the property's check against it in a scratch universe (tools/universe.sh), never in /repo.
id=$1; k=$2; tier=${3:-quick}; u=/tmp/u-${4:-seed}
cd /verif
if [ ! -f seeded/$id-$k/confirmed.json ]; then
  python3 tools/seedconfirm.py $id $k || { echo "RESULT $id-$k not-confirmed"; exit 1; }
fi
[ -d $u/repo ] || tools/universe.sh ${4:-seed} >/dev/null
rsync -a --delete --exclude .work --exclude .git --exclude go.mod /verif/ $u/verif/
git -C $u/repo checkout -q --detach $(git -C /repo rev-parse HEAD) 2>/dev/null
git -C $u/repo checkout -- . ; git -C $u/repo clean -fdq
git -C $u/repo apply /verif/seeded/$id-$k/patch.diff || { echo "RESULT $id-$k patch-does-not-apply"; exit 1; }
out=$(cd $u/verif && VERIF_REPO=$u/repo ./check $id --tier $tier 2>&1 | tail -400)
git -C $u/repo checkout -- . ; git -C $u/repo clean -fdq
rc=$(echo "$out" | grep -c '^VIOLATION'); ok=$(echo "$out" | grep -c '^OK property')
det=$(echo "$out" | grep -m1 'violation detail' | cut -c1-300)
if [ "$rc" -gt 0 ]; then res="rc=1"; elif [ "$ok" -gt 0 ]; then res="rc=0"; else res="rc=2"; fi
echo "RESULT $id-$k $tier $res $det"
( flock 9; python3 - "$id" "$k" "$tier" "$res" "$det" <<'P'
import json,sys,os
p='/verif/seeded/results.json'
r=json.load(open(p)) if os.path.exists(p) else {}
i,k,t,rc,det=sys.argv[1:6]
r.setdefault(i+'-'+k,{})[t]={"rc":rc,"first_violation":det}
json.dump(r,open(p,'w'),indent=1,sort_keys=True)
P
) 9>/tmp/seed-results.lock
