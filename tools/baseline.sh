#!/bin/bash
# Runs the pinned baseline (guard off) and compares with BASELINE.json's stable_pass list.
out=${1:-/tmp/baseline-run}
mkdir -p $out; : > $out/all.json
for m in . estargz ipfs cmd; do (cd /repo/$m && GOTOOLCHAIN=local GOPROXY=off GOFLAGS= go1.26.8 test -json -vet=off -count=1 -timeout 25m ./... >> $out/all.json 2>$out/err-$(echo $m|tr / _).txt); done
python3 - $out <<'P'
import json,sys
out=sys.argv[1]
st={}
for l in open(out+'/all.json'):
    try: e=json.loads(l)
    except Exception: continue
    if e.get('Action') in('pass','fail','skip') and e.get('Test'):
        st[e['Package']+'::'+e['Test']]=e['Action']
base=json.load(open('/root/.vp/BASELINE.json'))['stable_pass']
bad=[t for t in base if st.get(t)!='pass']
print('baseline tests:',len(base),'passing now:',len(base)-len(bad),'not passing:',len(bad))
for t in bad[:40]: print('  ',t,st.get(t))
P
