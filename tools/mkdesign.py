#!/usr/bin/env python3
"""Regenerates the generated block of DESIGN.md (findings, hooks, mutants, seeded changes) from the files that hold them."""
import json, os, glob, subprocess, re
R = '/verif'
out = []
k = json.load(open(R + '/known_findings.json'))['findings']
out.append('### 7.3 Findings (from `known_findings.json`)\n')
out.append('| id | property | status | commit | what fails |\n|---|---|---|---|---|')
for x in k:
    out.append('| %s | %s | %s | %s | %s |' % (x['id'], x['property'], x['status'], x.get('commit', '—'), x['what'].replace('|', '\\|').replace('\n', ' ')))
log = subprocess.run(['git', '-C', '/repo', 'log', '--reverse', '--format=%h %s', 'd7b0125..HEAD'], capture_output=True, text=True).stdout.splitlines()
out.append('\n### 7.4 Commits in `/repo` on top of the pinned commit\n')
out.append('| commit | kind | subject |\n|---|---|---|')
for l in log:
    h, s = l.split(' ', 1)
    kind = 'hook (tag `verif`)' if s.startswith('hook') else ('fix' if s.startswith('fix:') else 'other')
    out.append('| %s | %s | %s |' % (h, kind, s.replace('|', '\\|')))
out.append('\n### 7.5 Hand mutants (`mutants/<ID>/*.diff`; every one listed is reported by `./check <ID> --tier quick`)\n')
out.append('| property | mutants |\n|---|---|')
for d in sorted(glob.glob(R + '/mutants/C*')):
    names = sorted(os.path.basename(f)[:-5] for f in glob.glob(d + '/*.diff'))
    out.append('| %s | %s |' % (os.path.basename(d), ', '.join(names)))
res = {}
if os.path.exists(R + '/seeded/results.json'):
    res = json.load(open(R + '/seeded/results.json'))
out.append('\n### 7.6 Changes seeded by sub-agents (`seeded/<ID>-<k>/`)\n')
out.append('| id | file(s) | change | needs | quick tier | thorough tier |\n|---|---|---|---|---|---|')
for d in sorted(glob.glob(R + '/seeded/C*-*')):
    i = os.path.basename(d)
    try:
        m = json.load(open(d + '/meta.json'))
    except Exception:
        continue
    r = res.get(i, {})
    def cell(t):
        x = r.get(t)
        if not x:
            return 'not run'
        if x['rc'] == 'rc=1':
            return 'caught: ' + re.sub(r'^violation detail: ', '', x.get('first_violation', ''))[:160].replace('|', '\\|')
        if x['rc'] == 'rc=0':
            others = [k for k in r if k.startswith('other_check_') and r[k]['rc'] == 'rc=1']
            if t == 'quick' and others:
                return 'not by this check; reported by ' + ', '.join(k.split('_')[2] for k in others) + ': ' + r[others[0]]['first_violation'][:120].replace('|', '\\|')
            return '**missed**'
        return x['rc']
    def short(s, n):
        s = str(s).replace('|', '\\|').replace('\n', ' ')
        return s if len(s) <= n else s[:n] + '…'
    out.append('| %s | %s | %s | %s | %s | %s |' % (i, ', '.join(m.get('files', [])), short(m.get('title', ''), 140), short(m.get('trigger', ''), 220), cell('quick'), cell('thorough')))
blk = '\n'.join(out) + '\n'
s = open(R + '/DESIGN.md').read()
b, e = '<!-- BEGIN GENERATED -->\n', '<!-- END GENERATED -->\n'
if b in s:
    s = s[:s.index(b) + len(b)] + blk + s[s.index(e):]
else:
    s += '\n' + b + blk + e
open(R + '/DESIGN.md', 'w').write(s)
print('DESIGN.md generated block: %d lines' % blk.count('\n'))
